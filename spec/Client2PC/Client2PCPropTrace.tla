------------------------- MODULE Client2PCPropTrace -------------------------
(* Property layer for C28 as a trace specification.  A trace is what one run of            *)
(* harness/cmd/client2pc observed on the real code: the mutation set (Begin), every RPC    *)
(* the stores received with what the fault injector did to it and what the store really    *)
(* answered (Rpc), the results of the client calls (ClientRet for Mutate, Resolve for one   *)
(* CheckTxnStatus + ResolveLocks pass of a reader), and the values all keys had when they   *)
(* were read back through the client after the locks were resolved (FinalRead, at a         *)
(* timestamp below the commit version, at the commit version and above it).                 *)
(*                                                                                        *)
(* C28: the mutation set is, once resolved, entirely visible at its commit version or      *)
(* entirely invisible;                                                                      *)
(*   - it is entirely visible if the primary key committed (the store answered ok to a      *)
(*     commit request holding the primary, or reported the primary committed), and if       *)
(*     Mutate returned success;                                                             *)
(*   - it is entirely invisible if it failed before its primary committed: no commit        *)
(*     request holding the primary ever reached a store, or the store reported the primary  *)
(*     rolled back;                                                                         *)
(*   - below the commit version nothing of it is visible.                                   *)
(* Nothing here mentions how the client or the store work.                                  *)
EXTENDS Integers, Sequences, FiniteSets, TLC, Json, IOUtils

Trace == ndJsonDeserialize(IOEnv.TRACE)

VARIABLES l,     \* next trace line to explain
          st     \* what the property needs to remember of the current run
vars == <<l, st>>

Empty == [primary |-> 0, cts |-> 0, old |-> <<>>, new |-> <<>>,
          ok |-> FALSE,         \* Mutate returned success
          pcApplied |-> FALSE,  \* a commit request holding the primary key was applied by a store
          pcOk |-> FALSE,       \* ... and the store's answer to it was ok
          dec |-> "none",       \* primary status reported to a resolver: none | commit | rollback
          verdict |-> "none"]   \* outcome shown by the first distinguishing read: none | new | old

Init == l = 1 /\ st = Empty

ev == Trace[l]
Expect(got, want) == got = want \/ (got # want /\ PrintT(<<"MISMATCH", l, want>>))
Judge(good, what) == good \/ (~good /\ PrintT(<<"MISMATCH", l, what>>))
IsEvent(name) == l <= Len(Trace) /\ ev.e = name /\ l' = l + 1

Reset == IsEvent("Reset") /\ st' = Empty
Note  == IsEvent("Note") /\ UNCHANGED st

Begin == /\ IsEvent("Begin")
         /\ st' = [Empty EXCEPT !.primary = ev.primary, !.cts = ev.commit, !.old = ev.old, !.new = ev.new]

HoldsPrimary == \E i \in DOMAIN ev.keys : ev.keys[i] = st.primary
Rpc == /\ IsEvent("Rpc")
       /\ IF ev.who = "c" /\ ev.kind = "commit" /\ ev.applied /\ HoldsPrimary
          THEN st' = [st EXCEPT !.pcApplied = TRUE, !.pcOk = @ \/ ev.real = "ok"]
          ELSE UNCHANGED st

ClientRet == /\ IsEvent("ClientRet")
             /\ Judge(ev.ok => st.dec # "rollback", "C28: Mutate succeeded after rollback")
             /\ st' = [st EXCEPT !.ok = @ \/ ev.ok]

Resolve == /\ IsEvent("Resolve")
           /\ CASE ev.status = "committed" ->
                     /\ Judge(st.dec # "rollback", "C28: committed after rolled back")
                     /\ Judge(st.pcApplied, "C28: committed, no primary commit sent")
                     /\ Judge(ev.cv = st.cts, "C28: other commit version")
                     /\ st' = [st EXCEPT !.dec = "commit"]
                [] ev.status = "rollback" ->
                     /\ Judge(~st.ok, "C28: rolled back after Mutate success")
                     /\ Judge(~st.pcOk /\ st.dec # "commit", "C28: rolled back after primary commit")
                     /\ st' = [st EXCEPT !.dec = IF st.dec = "commit" \/ st.pcOk \/ st.ok THEN st.dec ELSE "rollback"]
                [] OTHER -> UNCHANGED st

MustNew == st.ok \/ st.pcOk \/ st.dec = "commit"
MustOld == ~st.pcApplied \/ st.dec = "rollback"
FinalRead ==
    /\ IsEvent("FinalRead")
    /\ LET k == ToString(ev.k)
           o == st.old[k]
           n == st.new[k]
       IN IF ev.ts < st.cts THEN Expect(ev.r, o) /\ UNCHANGED st
          ELSE IF MustNew \/ st.verdict = "new" THEN Expect(ev.r, n) /\ UNCHANGED st
          ELSE IF MustOld \/ st.verdict = "old" THEN Expect(ev.r, o) /\ UNCHANGED st
          ELSE IF o = n THEN Expect(ev.r, o) /\ UNCHANGED st
          ELSE IF ev.r = n THEN st' = [st EXCEPT !.verdict = "new"]
          ELSE IF ev.r = o THEN st' = [st EXCEPT !.verdict = "old"]
          ELSE Expect(ev.r, "the old or the new value") /\ UNCHANGED st

Next == Reset \/ Note \/ Begin \/ Rpc \/ ClientRet \/ Resolve \/ FinalRead
Spec == Init /\ [][Next]_vars

TraceAccepted ==
    LET d == TLCGet("stats").diameter
    IN PrintT(<<"TRACE_HW", d - 1, Len(Trace)>>) /\ d - 1 = Len(Trace)
=============================================================================
