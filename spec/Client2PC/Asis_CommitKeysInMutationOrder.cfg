SPECIFICATION Spec
CONSTANTS
 NK = 3
 MaxFaults = 0
 MaxLead = 0
 MaxAttempts = 1
 MaxRetries = 2
 MaxPasses = 1
 CheckTs = {25, 40}
 Concurrent = TRUE
 Dev = {"CommitKeysInMutationOrder"}
 Orders = "all"
 PlanMax = 0
 MaxHist = 30
VIEW view
INVARIANT CexPrimaryFirst
CHECK_DEADLOCK FALSE
