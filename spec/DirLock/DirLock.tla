------------------------------ MODULE DirLock ------------------------------
(* Implementation-shaped specification of the working-directory lock (C33).              *)
(* Code: utils/dirlock.go (AcquireDirLock, DirLock.Release ); used by db.go Open/Close.*)
(*                                                                                       *)
(* The lock is an flock(LOCK_EX|LOCK_NB) on the file <dir>/LOCK, which Release removes.  *)
(* The file system is modelled by what matters: `path` = the inode the name LOCK refers   *)
(* to (0 = no such file), `owner[i]` = which contender's open file description holds the *)
(* flock on inode i, and every contender's descriptor `fd` (an inode, 0 = none).         *)
(* One label per system call group of the code:                                          *)
(*   Open       open(LOCK, O_CREATE|O_RDWR): creates a fresh inode if the name is absent *)
(*   Flock      flock(fd, LOCK_EX|LOCK_NB): fails if another description holds it        *)
(*   Verify     (repaired design) fstat(fd) vs stat(LOCK): same file? else close, reopen  *)
(*   WriteInfo  truncate + write pid/host + sync; AcquireDirLock returns the lock        *)
(*   Rel1..Rel3 Release: as-is  unlock -> close -> unlink;  repaired  unlink -> unlock -> close *)
(*   CloseFail  close after a failed flock; AcquireDirLock returns "already in use"      *)
(*                                                                                       *)
(* Deviations of the tree before the fix: commit (both needed for safety, see MC cfgs):  *)
(*   "UnlinkAfterUnlock"  Release unlocks and closes before it unlinks the name          *)
(*   "NoInodeCheck"       Acquire does not check that the locked inode still has the name *)
EXTENDS Integers, Sequences, FiniteSets, TLC, Json

CONSTANTS Contenders,   \* e.g. {1,2,3}; each opens the database once and closes it again
          MaxInode,     \* inodes are 1..MaxInode (one fresh inode per creation)
          Deviations,
          MaxHist,      \* 0 for model checking, > 0 for behaviour generation
          MaxPre        \* behaviour generation: bound on pre-emptions

Inodes == 1..MaxInode

(* --algorithm DirLock {
variables
  path    = 0,                          \* inode named LOCK, 0 = absent
  owner   = [i \in Inodes |-> 0],       \* flock owner per inode
  nextIno = 1,
  holders = {},                         \* ghost: contenders whose AcquireDirLock succeeded and whose Release has not begun
  two     = FALSE,                      \* ghost, sticky: two holders at once
  hist    = <<>>, last = 0, pre = 0;    \* behaviour generation

define {
  AsIsOrder == "UnlinkAfterUnlock" \in Deviations
  Checked   == "NoInodeCheck" \notin Deviations
  AtMostOneHolder == ~two
}

macro Log(x) {
  if (Len(hist) < MaxHist) {
    hist := Append(hist, x);
    \* a pre-emption: the previous thread could have continued but another one runs
    pre := IF last # 0 /\ last # x /\ pc[last] # "Done" THEN pre + 1 ELSE pre;
    last := x;
  }
}

macro Unlock() { owner[fd] := 0 }
macro Unlink() { path := 0 }

fair process (c \in Contenders)
variables fd = 0;
{
Open:
  if (path = 0) { path := nextIno; nextIno := nextIno + 1 };
  fd := path;
  Log(self);                                       \* gate: before flock
Flock:
  if (owner[fd] = 0) { owner[fd] := self; goto Verify } else { Log(self); goto CloseFail };
Verify:
  if (Checked /\ path # fd) {
    Log(self);                                     \* gate: before the close that precedes the retry
    goto CloseRetry
  } else {
    Log(self);                                     \* gate: before truncate
  };
WriteInfo:
  holders := holders \cup {self};
  two := two \/ Cardinality(holders \cup {self}) > 1;
  Log(self);                                       \* AcquireDirLock returned; gate: holding
Rel1:                                              \* Release begins: the database no longer holds the directory
  holders := holders \ {self};
  if (AsIsOrder) { Unlock() } else { skip };       \* repaired order: parked before the unlink, nothing done yet
  Log(self);
Rel2:
  if (AsIsOrder) { skip } else { Unlink(); Unlock() };   \* as-is: close (no effect: already unlocked)
  Log(self);
Rel3:
  if (AsIsOrder) { Unlink() } else { skip };       \* repaired: close
  fd := 0;
  Log(self);
  goto Done;
CloseRetry:
  owner[fd] := 0;                                  \* closing the descriptor drops its flock
  if (path = 0) { path := nextIno; nextIno := nextIno + 1 };   \* ... and the loop opens the name again
  fd := path;
  Log(self);                                       \* gate: before flock
  goto Flock;
CloseFail:
  fd := 0;
  Log(self);
}
} *)
\* BEGIN TRANSLATION
VARIABLES pc, path, owner, nextIno, holders, two, hist, last, pre

(* define statement *)
AsIsOrder == "UnlinkAfterUnlock" \in Deviations
Checked   == "NoInodeCheck" \notin Deviations
AtMostOneHolder == ~two

VARIABLE fd

vars == << pc, path, owner, nextIno, holders, two, hist, last, pre, fd >>

ProcSet == (Contenders)

Init == (* Global variables *)
        /\ path = 0
        /\ owner = [i \in Inodes |-> 0]
        /\ nextIno = 1
        /\ holders = {}
        /\ two = FALSE
        /\ hist = <<>>
        /\ last = 0
        /\ pre = 0
        (* Process c *)
        /\ fd = [self \in Contenders |-> 0]
        /\ pc = [self \in ProcSet |-> "Open"]

Open(self) == /\ pc[self] = "Open"
              /\ IF path = 0
                    THEN /\ path' = nextIno
                         /\ nextIno' = nextIno + 1
                    ELSE /\ TRUE
                         /\ UNCHANGED << path, nextIno >>
              /\ fd' = [fd EXCEPT ![self] = path']
              /\ IF Len(hist) < MaxHist
                    THEN /\ hist' = Append(hist, self)
                         /\ pre' = (IF last # 0 /\ last # self /\ pc[last] # "Done" THEN pre + 1 ELSE pre)
                         /\ last' = self
                    ELSE /\ TRUE
                         /\ UNCHANGED << hist, last, pre >>
              /\ pc' = [pc EXCEPT ![self] = "Flock"]
              /\ UNCHANGED << owner, holders, two >>

Flock(self) == /\ pc[self] = "Flock"
               /\ IF owner[fd[self]] = 0
                     THEN /\ owner' = [owner EXCEPT ![fd[self]] = self]
                          /\ pc' = [pc EXCEPT ![self] = "Verify"]
                          /\ UNCHANGED << hist, last, pre >>
                     ELSE /\ IF Len(hist) < MaxHist
                                THEN /\ hist' = Append(hist, self)
                                     /\ pre' = (IF last # 0 /\ last # self /\ pc[last] # "Done" THEN pre + 1 ELSE pre)
                                     /\ last' = self
                                ELSE /\ TRUE
                                     /\ UNCHANGED << hist, last, pre >>
                          /\ pc' = [pc EXCEPT ![self] = "CloseFail"]
                          /\ owner' = owner
               /\ UNCHANGED << path, nextIno, holders, two, fd >>

Verify(self) == /\ pc[self] = "Verify"
                /\ IF Checked /\ path # fd[self]
                      THEN /\ IF Len(hist) < MaxHist
                                 THEN /\ hist' = Append(hist, self)
                                      /\ pre' = (IF last # 0 /\ last # self /\ pc[last] # "Done" THEN pre + 1 ELSE pre)
                                      /\ last' = self
                                 ELSE /\ TRUE
                                      /\ UNCHANGED << hist, last, pre >>
                           /\ pc' = [pc EXCEPT ![self] = "CloseRetry"]
                      ELSE /\ IF Len(hist) < MaxHist
                                 THEN /\ hist' = Append(hist, self)
                                      /\ pre' = (IF last # 0 /\ last # self /\ pc[last] # "Done" THEN pre + 1 ELSE pre)
                                      /\ last' = self
                                 ELSE /\ TRUE
                                      /\ UNCHANGED << hist, last, pre >>
                           /\ pc' = [pc EXCEPT ![self] = "WriteInfo"]
                /\ UNCHANGED << path, owner, nextIno, holders, two, fd >>

WriteInfo(self) == /\ pc[self] = "WriteInfo"
                   /\ holders' = (holders \cup {self})
                   /\ two' = (two \/ Cardinality(holders' \cup {self}) > 1)
                   /\ IF Len(hist) < MaxHist
                         THEN /\ hist' = Append(hist, self)
                              /\ pre' = (IF last # 0 /\ last # self /\ pc[last] # "Done" THEN pre + 1 ELSE pre)
                              /\ last' = self
                         ELSE /\ TRUE
                              /\ UNCHANGED << hist, last, pre >>
                   /\ pc' = [pc EXCEPT ![self] = "Rel1"]
                   /\ UNCHANGED << path, owner, nextIno, fd >>

Rel1(self) == /\ pc[self] = "Rel1"
              /\ holders' = holders \ {self}
              /\ IF AsIsOrder
                    THEN /\ owner' = [owner EXCEPT ![fd[self]] = 0]
                    ELSE /\ TRUE
                         /\ owner' = owner
              /\ IF Len(hist) < MaxHist
                    THEN /\ hist' = Append(hist, self)
                         /\ pre' = (IF last # 0 /\ last # self /\ pc[last] # "Done" THEN pre + 1 ELSE pre)
                         /\ last' = self
                    ELSE /\ TRUE
                         /\ UNCHANGED << hist, last, pre >>
              /\ pc' = [pc EXCEPT ![self] = "Rel2"]
              /\ UNCHANGED << path, nextIno, two, fd >>

Rel2(self) == /\ pc[self] = "Rel2"
              /\ IF AsIsOrder
                    THEN /\ TRUE
                         /\ UNCHANGED << path, owner >>
                    ELSE /\ path' = 0
                         /\ owner' = [owner EXCEPT ![fd[self]] = 0]
              /\ IF Len(hist) < MaxHist
                    THEN /\ hist' = Append(hist, self)
                         /\ pre' = (IF last # 0 /\ last # self /\ pc[last] # "Done" THEN pre + 1 ELSE pre)
                         /\ last' = self
                    ELSE /\ TRUE
                         /\ UNCHANGED << hist, last, pre >>
              /\ pc' = [pc EXCEPT ![self] = "Rel3"]
              /\ UNCHANGED << nextIno, holders, two, fd >>

Rel3(self) == /\ pc[self] = "Rel3"
              /\ IF AsIsOrder
                    THEN /\ path' = 0
                    ELSE /\ TRUE
                         /\ path' = path
              /\ fd' = [fd EXCEPT ![self] = 0]
              /\ IF Len(hist) < MaxHist
                    THEN /\ hist' = Append(hist, self)
                         /\ pre' = (IF last # 0 /\ last # self /\ pc[last] # "Done" THEN pre + 1 ELSE pre)
                         /\ last' = self
                    ELSE /\ TRUE
                         /\ UNCHANGED << hist, last, pre >>
              /\ pc' = [pc EXCEPT ![self] = "Done"]
              /\ UNCHANGED << owner, nextIno, holders, two >>

CloseRetry(self) == /\ pc[self] = "CloseRetry"
                    /\ owner' = [owner EXCEPT ![fd[self]] = 0]
                    /\ IF path = 0
                          THEN /\ path' = nextIno
                               /\ nextIno' = nextIno + 1
                          ELSE /\ TRUE
                               /\ UNCHANGED << path, nextIno >>
                    /\ fd' = [fd EXCEPT ![self] = path']
                    /\ IF Len(hist) < MaxHist
                          THEN /\ hist' = Append(hist, self)
                               /\ pre' = (IF last # 0 /\ last # self /\ pc[last] # "Done" THEN pre + 1 ELSE pre)
                               /\ last' = self
                          ELSE /\ TRUE
                               /\ UNCHANGED << hist, last, pre >>
                    /\ pc' = [pc EXCEPT ![self] = "Flock"]
                    /\ UNCHANGED << holders, two >>

CloseFail(self) == /\ pc[self] = "CloseFail"
                   /\ fd' = [fd EXCEPT ![self] = 0]
                   /\ IF Len(hist) < MaxHist
                         THEN /\ hist' = Append(hist, self)
                              /\ pre' = (IF last # 0 /\ last # self /\ pc[last] # "Done" THEN pre + 1 ELSE pre)
                              /\ last' = self
                         ELSE /\ TRUE
                              /\ UNCHANGED << hist, last, pre >>
                   /\ pc' = [pc EXCEPT ![self] = "Done"]
                   /\ UNCHANGED << path, owner, nextIno, holders, two >>

c(self) == Open(self) \/ Flock(self) \/ Verify(self) \/ WriteInfo(self)
              \/ Rel1(self) \/ Rel2(self) \/ Rel3(self) \/ CloseRetry(self)
              \/ CloseFail(self)

(* Allow infinite stuttering to prevent deadlock on termination. *)
Terminating == /\ \A self \in ProcSet: pc[self] = "Done"
               /\ UNCHANGED vars

Next == (\E self \in Contenders: c(self))
           \/ Terminating

Spec == /\ Init /\ [][Next]_vars
        /\ \A self \in Contenders : WF_vars(c(self))

Termination == <>(\A self \in ProcSet: pc[self] = "Done")

\* END TRANSLATION

\* ---- behaviour generation ------------------------------------------------------------
\* Flock and Verify are not separated by a gate: keep them contiguous in generated schedules.
Uncontrolled == {"Verify"}
GateGrain == \A p \in Contenders : pc[p] \in Uncontrolled => pc'[p] # pc[p]
PreBound == pre <= MaxPre
AllDone == \A p \in Contenders : pc[p] = "Done"
EmitHist == AllDone => PrintT(<<"SCHED", ToJson(hist)>>)

View == <<path, owner, nextIno, holders, two, pc, fd>>
=============================================================================
