SPECIFICATION Spec
CONSTANTS
 Contenders = {1,2,3}
 MaxInode = 6
 Deviations = {"UnlinkAfterUnlock","NoInodeCheck"}
 MaxHist = 100
 MaxPre = 2
 defaultInitValue = 0
ACTION_CONSTRAINT GateGrain
CONSTRAINT PreBound
INVARIANT EmitHist
CHECK_DEADLOCK FALSE
