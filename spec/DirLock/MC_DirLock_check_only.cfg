SPECIFICATION Spec
CONSTANTS
 Contenders = {1,2,3}
 MaxInode = 6
 Deviations = {"UnlinkAfterUnlock"}
 MaxHist = 0
 MaxPre = 0
 defaultInitValue = 0
INVARIANTS AtMostOneHolder
VIEW View
CHECK_DEADLOCK FALSE
