-------------------------- MODULE DirLockPropTrace --------------------------
(* Property layer for C33: at most one open database holds a working directory at any    *)
(* moment.  Events recorded from the real utils.AcquireDirLock / Release:                *)
(*   Acquire {t, ok}   AcquireDirLock returned to contender t (ok = it got the lock)     *)
(*   Release {t}       contender t is about to call Release (it stops using the          *)
(*                     directory before that call)                                       *)
(* A contender holds the directory from a successful Acquire until its Release event.    *)
(* Nothing here refers to files, inodes or flock.                                        *)
EXTENDS Integers, Sequences, FiniteSets, TLC, Json, IOUtils

Trace == ndJsonDeserialize(IOEnv.TRACE)

VARIABLES l, holders
vars == <<l, holders>>

Init == l = 1 /\ holders = {}
ev == Trace[l]
Expect(got, want) == got = want \/ (got # want /\ PrintT(<<"MISMATCH", l, want>>))
IsEvent(name) == l <= Len(Trace) /\ ev.e = name /\ l' = l + 1

Reset == IsEvent("Reset") /\ holders' = {}

\* a successful acquisition happens only while nobody else holds the directory
Acquire == /\ IsEvent("Acquire")
           /\ IF ev.ok THEN Expect(holders \ {ev.t}, {}) /\ holders' = holders \cup {ev.t}
                       ELSE UNCHANGED holders

Release == IsEvent("Release") /\ holders' = holders \ {ev.t}

Next == Reset \/ Acquire \/ Release
Spec == Init /\ [][Next]_vars

TraceAccepted ==
    LET d == TLCGet("stats").diameter
    IN PrintT(<<"TRACE_HW", d - 1, Len(Trace)>>) /\ d - 1 = Len(Trace)
=============================================================================
