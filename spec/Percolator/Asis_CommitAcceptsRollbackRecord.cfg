SPECIFICATION Spec
CONSTANTS
 Keys = {1, 2}
 Txns = {1, 2, 3}
 StartTs <- StartA
 CommitTs <- CommitB
 KindOf <- KindsB
 TTLOf <- TTLA
 MinCOf <- MinCB
 TxnKeys <- KeysB
 PrimaryOf <- PrimA
 ValOf <- ValsA
 CheckArgs <- ChecksQ
 ReadTs = {10, 20, 25, 30, 35, 45, 50}
 Limits = {1, 16}
 Ops <- AllOps
 Boosts = {0, 7}
 Dev = {"CommitAcceptsRollbackRecord"}
 GenMode = "any"
 MaxHist = 12
VIEW view
INVARIANT GoodOrCex
CHECK_DEADLOCK FALSE
