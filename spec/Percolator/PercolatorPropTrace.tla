------------------------ MODULE PercolatorPropTrace ------------------------
(* Trace specification of the property layer for C17 / C18 / C19.  A trace recorded from *)
(* the real code (requests through raftstore/kv.Apply, lock-column probes, GET and SCAN   *)
(* reads, maintenance steps) is accepted iff no response contradicts PercolatorProp.tla.  *)
(* Every contradiction is reported as <<"MISMATCH", line, what>> and the trace continues  *)
(* with the ghost the property dictates, so one TLC run reports every concatenated trace. *)
EXTENDS PercolatorProp, TLC, Json, IOUtils

Trace == ndJsonDeserialize(IOEnv.TRACE)

VARIABLES l,        \* next trace line to explain
          g         \* ghost: (start ts, key) -> status, from successful responses only
vars == <<l, g>>

Init == l = 1 /\ g = EmptyG

ev == Trace[l]
Expect(got, want) == got = want \/ (got # want /\ PrintT(<<"MISMATCH", l, want>>))
Judge(v) == v = {} \/ (v # {} /\ PrintT(<<"MISMATCH", l, v>>))
IsEvent(name) == l <= Len(Trace) /\ ev.e = name /\ l' = l + 1

Reset    == IsEvent("Reset")    /\ g' = EmptyG
Prewrite == IsEvent("Prewrite") /\ Judge(PrewriteViol(g, ev)) /\ g' = PrewriteUpd(g, ev)
Commit   == IsEvent("Commit")   /\ Judge(CommitViol(g, ev))   /\ g' = CommitUpd(g, ev)
Rollback == IsEvent("Rollback") /\ Judge(RollbackViol(g, ev)) /\ g' = RollbackUpd(g, ev)
Resolve  == IsEvent("Resolve")  /\ Judge(ResolveViol(g, ev))  /\ g' = ResolveUpd(g, ev)
Check    == IsEvent("Check")    /\ Judge(CheckViol(g, ev))    /\ g' = CheckUpd(g, ev)

\* C17: point get
Get == /\ IsEvent("Get")
       /\ Expect([r |-> ev.r, v |-> ev.v, lts |-> ev.lts], RefGet(g, ev.k, ev.ts))
       /\ UNCHANGED g
\* C17: scans agree with point gets
Scan == /\ IsEvent("Scan")
        /\ Expect([kvs |-> ev.kvs, r |-> ev.r, lk |-> ev.lk, lts |-> ev.lts], RefScan(g, ev.ts, ev.from, ev.incl, ev.limit))
        /\ UNCHANGED g
\* C19: lock column probe
Lock == /\ IsEvent("Lock")
        /\ Expect([ts |-> ev.ts, mc |-> ev.mc], RefLock(g, ev.k))
        /\ UNCHANGED g
\* rotation, flush, compaction, reopen: never change anything observable
Maint == IsEvent("Maint") /\ Expect(ev.ok, TRUE) /\ UNCHANGED g

Next == Reset \/ Prewrite \/ Commit \/ Rollback \/ Resolve \/ Check \/ Get \/ Scan \/ Lock \/ Maint
Spec == Init /\ [][Next]_vars

TraceAccepted ==
    LET d == TLCGet("stats").diameter
    IN PrintT(<<"TRACE_HW", d - 1, Len(Trace)>>) /\ d - 1 = Len(Trace)
=============================================================================
