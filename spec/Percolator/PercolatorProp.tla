--------------------------- MODULE PercolatorProp ---------------------------
(* Property layer for C17 / C18 / C19 (DESIGN.md 2.1): pure operators, no variables.     *)
(* The only state is a ghost map g from (transaction start timestamp, key) to that        *)
(* transaction's status on that key, updated ONLY from successful responses:              *)
(*   none -> locked (successful prewrite) -> committed(cts) | rolledback                  *)
(*   none -> rolledback (successful rollback before the prewrite arrived)                 *)
(* Each request kind has an operator XViol(g, e) returning the set of property clauses    *)
(* the observed response e contradicts (empty = consistent) and XUpd(g, e), the ghost     *)
(* after the response.  Reads and lock probes have an exact expected reply.               *)
(* Both PercolatorPropTrace.tla (judging traces of the real code) and Percolator.tla      *)
(* (the implementation-shaped model, M1) use exactly these operators.                     *)
(* Nothing here mentions an implementation identifier (columns, write records, ...).      *)
EXTENDS Integers, Sequences, FiniteSets

EmptyG == [x \in {} |-> 0]
Fresh  == [st |-> "none", cts |-> 0, kind |-> "put", val |-> "", ttl |-> 0, mc |-> 0]

G(g, s, k) == IF <<s, k>> \in DOMAIN g THEN g[<<s, k>>] ELSE Fresh
Put(g, s, k, rec) == [x \in (DOMAIN g) \cup {<<s, k>>} |-> IF x = <<s, k>> THEN rec ELSE g[x]]

Max2(a, b) == IF a >= b THEN a ELSE b
MinOf(S) == CHOOSE x \in S : \A y \in S : x <= y

\* start timestamps of the transactions whose lock is on key k
LockedBy(g, k) == {x[1] : x \in {y \in DOMAIN g : y[2] = k /\ g[y].st = "locked"}}
CommittedOn(g, k) == {y \in DOMAIN g : y[2] = k /\ g[y].st = "committed"}
KeysOf(g) == {y[2] : y \in DOMAIN g}

Overlap(s1, c1, s2, c2) == s1 <= c2 /\ s2 <= c1

If(c, name) == IF c THEN {name} ELSE {}

----------------------------------------------------------------------------
(* C17: a read at ts is blocked iff a lock with start ts <= ts is on the key; otherwise it *)
(* returns the newest committed put/delete with commit ts <= ts (rolled-back and lock-only *)
(* transactions never appear: they are not "put"/"del" commits).                           *)
RefGet(g, k, ts) ==
    LET L == {s \in LockedBy(g, k) : s <= ts}
    IN IF L # {} THEN [r |-> "locked", v |-> "", lts |-> MinOf(L)]
       ELSE LET C == {y \in CommittedOn(g, k) : g[y].cts <= ts /\ g[y].kind \in {"put", "del"}}
            IN IF C = {} THEN [r |-> "notfound", v |-> "", lts |-> 0]
               ELSE LET top == CHOOSE y \in C : \A z \in C : g[z].cts <= g[y].cts
                    IN IF g[top].kind = "put" THEN [r |-> "value", v |-> g[top].val, lts |-> 0]
                       ELSE [r |-> "notfound", v |-> "", lts |-> 0]

RECURSIVE SortedSeq(_)
SortedSeq(S) == IF S = {} THEN <<>> ELSE LET m == MinOf(S) IN <<m>> \o SortedSeq(S \ {m})

\* A scan agrees with the point gets of the keys in ascending order, stopping at the limit
\* or at the first key whose get is blocked.
RECURSIVE ScanFrom(_, _, _, _, _)
ScanFrom(g, ks, ts, limit, acc) ==
    IF ks = <<>> \/ Len(acc) >= limit THEN [kvs |-> acc, r |-> "ok", lk |-> 0, lts |-> 0]
    ELSE LET k == Head(ks)
             rg == RefGet(g, k, ts)
         IN IF rg.r = "locked" THEN [kvs |-> acc, r |-> "locked", lk |-> k, lts |-> rg.lts]
            ELSE IF rg.r = "value" THEN ScanFrom(g, Tail(ks), ts, limit, Append(acc, [k |-> k, v |-> rg.v]))
            ELSE ScanFrom(g, Tail(ks), ts, limit, acc)

RefScan(g, ts, from, incl, limit) ==
    LET ks == {k \in KeysOf(g) : k > from \/ (incl /\ k = from)}
    IN ScanFrom(g, SortedSeq(ks), ts, limit, <<>>)

\* C19: the lock column reports exactly the lock of the transaction that is "locked" on k.
RefLock(g, k) ==
    LET L == LockedBy(g, k)
    IN IF L = {} THEN [ts |-> 0, mc |-> 0] ELSE [ts |-> MinOf(L), mc |-> G(g, MinOf(L), k).mc]

----------------------------------------------------------------------------
(* Prewrite e: start, k, kind, v, ttl, minc ; reply r ("ok" | "locked" | other failure), lts *)
PrewriteViol(g, e) ==
    LET me == G(g, e.start, e.k)
        others == LockedBy(g, e.k) \ {e.start}
    IN If(others # {} /\ ~(e.r = "locked" /\ e.lts \in others), "C19:prewrite-did-not-report-existing-lock")
       \cup If(others = {} /\ e.r = "locked", "C19:reported-lock-does-not-exist")
       \cup If(e.r = "ok" /\ me.st \in {"committed", "rolledback"}, "C18:prewrite-succeeds-after-outcome")
PrewriteUpd(g, e) ==
    IF e.r = "ok" /\ G(g, e.start, e.k).st = "none"
    THEN Put(g, e.start, e.k, [st |-> "locked", cts |-> 0, kind |-> e.kind, val |-> e.v, ttl |-> e.ttl, mc |-> e.minc])
    ELSE g      \* failed, or a repeated prewrite: changes nothing

(* the checks a successful commit of (start, k) at cts must pass while the key is locked *)
CommitLockedViol(g, start, k, cts) ==
    LET me == G(g, start, k)
    IN If(cts < me.mc, "C19:commit-below-min-commit-ts")
       \cup If(\E y \in CommittedOn(g, k) : y[1] # start /\ Overlap(y[1], g[y].cts, start, cts), "C18:overlapping-transactions-both-committed")
DoCommit(g, start, k, cts) == Put(g, start, k, [G(g, start, k) EXCEPT !.st = "committed", !.cts = cts])
DoRollback(g, start, k) == Put(g, start, k, [G(g, start, k) EXCEPT !.st = "rolledback"])

(* Commit e: start, commit, k ; reply r, lts *)
CommitViol(g, e) ==
    LET me == G(g, e.start, e.k)
    IN If(e.r = "ok" /\ me.st = "rolledback", "C18:commit-succeeds-after-rollback")
       \cup If(e.r = "ok" /\ me.st = "none", "C18:commit-succeeds-without-prewrite")
       \cup (IF e.r = "ok" /\ me.st = "locked" THEN CommitLockedViol(g, e.start, e.k, e.commit) ELSE {})
       \cup If(e.r = "locked" /\ e.lts \notin LockedBy(g, e.k), "C19:reported-lock-does-not-exist")
CommitUpd(g, e) ==
    IF e.r = "ok" /\ G(g, e.start, e.k).st = "locked" THEN DoCommit(g, e.start, e.k, e.commit) ELSE g

(* Rollback e: start, k ; reply r.  A successful rollback of a committed key does not undo it. *)
RollbackViol(g, e) == If(e.r = "locked" /\ e.lts \notin LockedBy(g, e.k), "C19:reported-lock-does-not-exist")
RollbackUpd(g, e) ==
    IF e.r = "ok" /\ G(g, e.start, e.k).st # "committed" THEN DoRollback(g, e.start, e.k) ELSE g

(* Resolve e: start, commit (0 = roll back), k ; reply r, n (number of locks resolved) *)
ResolveViol(g, e) ==
    LET me == G(g, e.start, e.k)
    IN If(e.r = "ok" /\ me.st # "locked" /\ e.n # 0, "C19:resolved-a-lock-that-does-not-exist")
       \cup If(e.r = "ok" /\ me.st = "locked" /\ e.n # 1, "C19:existing-lock-not-resolved")
       \cup (IF e.r = "ok" /\ me.st = "locked" /\ e.n = 1 /\ e.commit > 0 THEN CommitLockedViol(g, e.start, e.k, e.commit) ELSE {})
       \cup If(e.r = "locked" /\ e.lts \notin LockedBy(g, e.k), "C19:reported-lock-does-not-exist")
ResolveUpd(g, e) ==
    IF e.r = "ok" /\ G(g, e.start, e.k).st = "locked" /\ e.n = 1
    THEN IF e.commit > 0 THEN DoCommit(g, e.start, e.k, e.commit) ELSE DoRollback(g, e.start, e.k)
    ELSE g

(* Check e: start, k (primary), cur, caller, rbne ; reply r, lts, act, cv *)
CheckViol(g, e) ==
    LET me == G(g, e.start, e.k)
    IN IF e.r = "locked" THEN If(e.lts \notin (LockedBy(g, e.k) \ {e.start}), "C19:reported-lock-does-not-exist")
       ELSE IF e.r # "ok" THEN {}
       ELSE IF e.act = "ttl" THEN
            If(me.st # "locked", "C19:ttl-rollback-without-lock")
            \cup If(me.st = "locked" /\ e.cur < e.start + me.ttl, "C19:rolled-back-before-ttl-expiry")
       ELSE IF e.act = "notexist" THEN
            If(me.st = "locked", "C19:existing-lock-reported-missing")
            \cup If(me.st = "committed", "C18:committed-transaction-reported-rolled-back")
       ELSE IF e.act = "pushed" THEN If(me.st # "locked", "C19:reported-lock-does-not-exist")
       ELSE \* no action
            If(e.cv > 0 /\ ~(me.st = "committed" /\ me.cts = e.cv), "C18:reported-commit-version-is-not-the-outcome")
            \cup If(e.cv = 0 /\ me.st = "committed", "C18:committed-outcome-not-reported")
            \cup If(e.cv = 0 /\ me.st = "rolledback", "C18:rolled-back-outcome-not-reported")
CheckUpd(g, e) ==
    LET me == G(g, e.start, e.k)
    IN IF e.r # "ok" THEN g
       ELSE IF e.act = "ttl" /\ me.st = "locked" THEN DoRollback(g, e.start, e.k)
       ELSE IF e.act = "notexist" /\ me.st \in {"none", "rolledback"} THEN DoRollback(g, e.start, e.k)
       ELSE IF e.act = "pushed" /\ me.st = "locked" THEN Put(g, e.start, e.k, [me EXCEPT !.mc = Max2(me.mc, e.caller + 1)])
       ELSE g
=============================================================================
