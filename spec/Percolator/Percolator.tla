----------------------------- MODULE Percolator -----------------------------
(* Implementation-shaped specification of NoKV's Percolator layer                         *)
(*   percolator/txn.go     prewriteMutation, Commit/commitKey, BatchRollback/rollbackKey, *)
(*                         ResolveLock, CheckTxnStatus/isLockExpired                      *)
(*   percolator/reader.go  GetLock, MostRecentWrite, GetWriteByStartTs, getWriteForRead,  *)
(*                         GetValue                                                       *)
(*   raftstore/kv/apply.go handleGet, handleScan/collectVisibleValue                      *)
(* State = the three column families per key, as the code keeps them:                     *)
(*   lock[k]    the single entry of the lock column (fixed storage version)               *)
(*   writes[k]  write column: records [ts, kind \in put/del/lock/rollback, start],        *)
(*              commit records at the commit ts, rollback records at the start ts         *)
(*   data[k]    default column: versions [ver, tomb, val] written at the start ts         *)
(* One action per request (a request holds the key latches for its whole execution, and   *)
(* the driver issues one key per request), with the response computed the way the code    *)
(* computes it.  The property layer (PercolatorProp.tla) judges every response through    *)
(* the same operators the trace specification uses; its complaints accumulate in `viol`.  *)
(*                                                                                        *)
(* Deviations: behaviours of the tree before the fix: commits of this family, kept as     *)
(* named switchable disjuncts (CONSTANT Dev).  MC_Percolator*.cfg run with Dev = {} (the   *)
(* repaired mechanism); Asis_*.cfg enable one deviation each and are EXPECTED to violate   *)
(* Good: their counterexamples are the replay schedules of the repaired defects.          *)
EXTENDS PercolatorProp, TLC, Json

CONSTANTS Keys,        \* e.g. {1, 2}: key i is "k<i>", scanned in ascending order
          Txns,        \* e.g. {1, 2, 3}
          StartTs, CommitTs, KindOf, TTLOf, MinCOf, TxnKeys, PrimaryOf, ValOf,   \* tables indexed by transaction
          CheckArgs,   \* CheckTxnStatus variants <<CurrentTs - start ts, CallerStartTs (0 = none), RollbackIfNotExist>>
          ReadTs,      \* read timestamps probed by the invariants
          Limits,      \* scan limits probed by the invariants
          Boosts,      \* a prewrite (first or retried) carries LockTtl = TTLOf[t] + b, b \in Boosts, and a MinCommitTs raised by b \div 7
          Dev,         \* enabled deviations (see above)
          Ops,         \* request kinds issued (all of AllOps in exhaustive runs; subsets steer random generation)
          GenMode,     \* behaviour generation only: "any" | "effective" | "mixed" | "late" | "contend" (see GenConstraint)
          MaxHist      \* history length (0 in exhaustive runs)

\* ---- transaction tables (selected by the cfg files through <-) ----
StartA   == <<10, 20, 30>>
StartB   == <<5, 10, 20>>        \* with CommitC: transaction 3 starts last and commits first, inside the other two
CommitC  == <<30, 40, 25>>
StartC   == <<7, 100, 1000>>     \* off the 10/20/30 grid, all three intervals nested in start order
CommitD  == <<2000, 1500, 1200>>
CommitA  == <<15, 25, 35>>       \* disjoint [start, commit] intervals
CommitB  == <<25, 35, 45>>       \* neighbours overlap
KindsA   == <<"put", "put", "put">>
KindsB   == <<"put", "lock", "del">>
KindsC   == <<"put", "del", "put">>
TTLA     == <<5, 5, 0>>
MinCA    == <<0, 0, 0>>
MinCB    == <<0, 21, 0>>
KeysA    == <<{1, 2}, {1, 2}, {1, 2}>>
KeysB    == <<{1, 2}, {1}, {1, 2}>>
PrimA    == <<1, 2, 1>>
ValsA    == <<<<"a1", "a2">>, <<"b1", "b2">>, <<"c1", "c2">>>>
\* TTL is 5: offset 4 = not expired, 5 = expired; caller 12 pushes min-commit-ts to 13, caller 40 to 41
ChecksQ  == {<<4, 0, FALSE>>, <<4, 12, FALSE>>, <<5, 0, FALSE>>, <<4, 0, TRUE>>}
ChecksT  == {<<4, 0, FALSE>>, <<4, 12, FALSE>>, <<4, 40, FALSE>>, <<5, 0, FALSE>>, <<5, 12, TRUE>>, <<4, 0, TRUE>>}

VARIABLES lock, writes, data,   \* the columns
          g, viol,              \* property layer: ghost status map, complaints so far
          hist                  \* request history (behaviour generation / counterexamples)
vars == <<lock, writes, data, g, viol, hist>>
view == <<lock, writes, data, g, viol>>

NoLock  == [ts |-> 0, ttl |-> 0, kind |-> "", mc |-> 0]
NoWrite == [ts |-> 0, kind |-> "none", start |-> 0]
NoData  == [ver |-> 0, tomb |-> TRUE, val |-> ""]

TopTs(S) == CHOOSE w \in S : \A x \in S : x.ts <= w.ts

\* ------------------------------------------------------------------ reader.go
\* MostRecentWrite: the record with the greatest timestamp, of any kind
MostRecentWrite(k) == IF writes[k] = {} THEN NoWrite ELSE TopTs(writes[k])
\* GetWriteByStartTs: scans newest first, stops below startTs
WriteByStart(k, s) ==
    LET S == {w \in writes[k] : w.start = s /\ w.ts >= s}
    IN IF S = {} THEN NoWrite ELSE TopTs(S)
\* db.GetVersionedEntry(CFDefault, key, v): entry at the greatest version <= v (tombstones included)
DataAt(k, v) ==
    LET S == {d \in data[k] : d.ver <= v}
    IN IF S = {} THEN NoData ELSE CHOOSE d \in S : \A x \in S : x.ver <= d.ver
HasData(k, v) == \E d \in data[k] : d.ver <= v
\* getWriteForRead: newest record at or below the read ts; rollback and lock-only records are skipped
\* (deviation ReadStopsAtRollbackOrLockRecord: they were not)
WriteForRead(k, rt) ==
    LET S == {w \in writes[k] : w.ts <= rt /\ ("ReadStopsAtRollbackOrLockRecord" \in Dev \/ w.kind \notin {"rollback", "lock"})}
    IN IF S = {} THEN NoWrite ELSE TopTs(S)
NotFound == [r |-> "notfound", v |-> "", lts |-> 0]
GetValue(k, rt) ==
    LET w == WriteForRead(k, rt)
    IN IF w.kind \in {"none", "del", "rollback"} THEN NotFound
       ELSE LET d == DataAt(k, w.start)
            IN IF ~HasData(k, w.start) \/ d.tomb THEN NotFound ELSE [r |-> "value", v |-> d.val, lts |-> 0]

\* ------------------------------------------------------------------- apply.go
HandleGet(k, rt) ==
    IF lock[k].ts # 0 /\ rt >= lock[k].ts THEN [r |-> "locked", v |-> "", lts |-> lock[k].ts]
    ELSE GetValue(k, rt)

RECURSIVE DescSeq(_)
DescSeq(S) == IF S = {} THEN <<>> ELSE LET m == TopTs(S) IN <<m>> \o DescSeq(S \ {m})
\* collectVisibleValue: walks the key's write records newest first
RECURSIVE Collect(_, _)
Collect(k, ws) ==
    IF ws = <<>> THEN [found |-> FALSE, v |-> ""]
    ELSE LET w == Head(ws)
         IN IF w.kind \in {"rollback", "lock"} /\ "ReadStopsAtRollbackOrLockRecord" \notin Dev THEN Collect(k, Tail(ws))
            ELSE IF w.kind \in {"del", "rollback"} THEN [found |-> FALSE, v |-> ""]
            ELSE IF ~HasData(k, w.start) THEN Collect(k, Tail(ws))
            ELSE LET d == DataAt(k, w.start) IN [found |-> TRUE, v |-> IF d.tomb THEN "EMPTY" ELSE d.val]
CollectVisible(k, rt) == Collect(k, DescSeq({w \in writes[k] : w.ts <= rt}))

\* handleScan: visits user keys in ascending order.  Deviation ScanSkipsKeysWithoutWriteRecords: only keys
\* that own a write record were visited, so the lock of a key prewritten for the first time was not seen.
ScanKeys(from, incl) ==
    {k \in Keys : (k > from \/ (incl /\ k = from))
                  /\ (writes[k] # {} \/ ("ScanSkipsKeysWithoutWriteRecords" \notin Dev /\ lock[k].ts # 0))}
RECURSIVE ScanLoop(_, _, _, _)
ScanLoop(ks, rt, limit, acc) ==
    IF ks = <<>> \/ Len(acc) >= limit THEN [kvs |-> acc, r |-> "ok", lk |-> 0, lts |-> 0]
    ELSE LET k == Head(ks)
         IN IF lock[k].ts # 0 /\ rt >= lock[k].ts THEN [kvs |-> acc, r |-> "locked", lk |-> k, lts |-> lock[k].ts]
            ELSE LET c == CollectVisible(k, rt)
                 IN ScanLoop(Tail(ks), rt, limit, IF c.found THEN Append(acc, [k |-> k, v |-> c.v]) ELSE acc)
HandleScan(rt, from, incl, limit) == ScanLoop(SortedSeq(ScanKeys(from, incl)), rt, limit, <<>>)

\* --------------------------------------------------------------------- txn.go
\* Effects are returned as a record [lock, writes, data] for key k together with the reply.
Cols(k) == [lock |-> lock[k], writes |-> writes[k], data |-> data[k]]
SetData(d, ver, tomb, val) == {x \in d : x.ver # ver} \cup {[ver |-> ver, tomb |-> tomb, val |-> val]}

\* rollbackKey
RollbackKey(k, s) ==
    IF WriteByStart(k, s).kind # "none" THEN [r |-> "ok", c |-> Cols(k)]     \* committed or already rolled back: nothing
    ELSE [r |-> "ok",
          c |-> [lock   |-> IF "RollbackRemovesForeignLock" \in Dev \/ lock[k].ts = s THEN NoLock ELSE lock[k],
                 writes |-> writes[k] \cup {[ts |-> s, kind |-> "rollback", start |-> s]},
                 data   |-> SetData(data[k], s, TRUE, "")]]
\* commitKey
CommitKey(k, cts) ==
    LET lk == lock[k]
        w  == WriteByStart(k, lk.ts)
    IN IF lk.mc > cts THEN [r |-> "expired", c |-> Cols(k)]
       ELSE IF w.kind = "rollback" THEN [r |-> "abort", c |-> Cols(k)]
       ELSE IF w.kind # "none" THEN [r |-> "ok", c |-> IF w.ts # cts THEN [Cols(k) EXCEPT !.lock = NoLock] ELSE Cols(k)]
       ELSE [r |-> "ok", c |-> [lock |-> NoLock, data |-> data[k],
                                writes |-> writes[k] \cup {[ts |-> cts, kind |-> lk.kind, start |-> lk.ts]}]]

Apply(k, c) == /\ lock' = [lock EXCEPT ![k] = c.lock]
               /\ writes' = [writes EXCEPT ![k] = c.writes]
               /\ data' = [data EXCEPT ![k] = c.data]

Log(rec) == hist' = IF Len(hist) < MaxHist THEN Append(hist, rec) ELSE hist

\* prewriteMutation; b distinguishes retried prewrites that carry other TTL / MinCommitTs fields
Prewrite(t, k, b) ==
    LET s == StartTs[t]
        ttl == TTLOf[t] + b
        minc == MinCOf[t] + (b \div 7)
        req == [op |-> "Prewrite", start |-> s, k |-> k, kind |-> KindOf[t], v |-> ValOf[t][k], ttl |-> ttl,
                minc |-> minc, pk |-> PrimaryOf[t], cts |-> CommitTs[t]]
        fresh == [lock |-> [ts |-> s, ttl |-> ttl, kind |-> KindOf[t], mc |-> minc],
                  writes |-> writes[k],
                  data |-> SetData(data[k], s, KindOf[t] # "put", IF KindOf[t] = "put" THEN ValOf[t][k] ELSE "")]
        res == IF lock[k].ts # 0 /\ lock[k].ts # s THEN [r |-> "locked", lts |-> lock[k].ts, c |-> Cols(k)]
               ELSE IF lock[k].ts = s /\ "RePrewriteRewritesLock" \notin Dev THEN [r |-> "ok", lts |-> 0, c |-> Cols(k)]
               ELSE IF MostRecentWrite(k).kind # "none" /\ MostRecentWrite(k).ts >= s THEN [r |-> "conflict", lts |-> 0, c |-> Cols(k)]
               ELSE [r |-> "ok", lts |-> 0, c |-> fresh]
        e == [start |-> s, k |-> k, kind |-> KindOf[t], v |-> ValOf[t][k], ttl |-> ttl, minc |-> minc, r |-> res.r, lts |-> res.lts]
    IN /\ k \in TxnKeys[t]
       /\ Apply(k, res.c) /\ viol' = viol \cup PrewriteViol(g, e) /\ g' = PrewriteUpd(g, e) /\ Log(req)

\* Commit (one key)
Commit(t, k) ==
    LET s == StartTs[t]
        req == [op |-> "Commit", start |-> s, commit |-> CommitTs[t], k |-> k]
        w == WriteByStart(k, s)
        res == IF lock[k].ts = 0
               THEN IF w.kind # "none" /\ (w.kind # "rollback" \/ "CommitAcceptsRollbackRecord" \in Dev)
                    THEN [r |-> "ok", lts |-> 0, c |-> Cols(k)] ELSE [r |-> "abort", lts |-> 0, c |-> Cols(k)]
               ELSE IF lock[k].ts # s THEN [r |-> "locked", lts |-> lock[k].ts, c |-> Cols(k)]
               ELSE [r |-> CommitKey(k, CommitTs[t]).r, lts |-> 0, c |-> CommitKey(k, CommitTs[t]).c]
        e == [start |-> s, commit |-> CommitTs[t], k |-> k, r |-> res.r, lts |-> res.lts]
    IN /\ k \in TxnKeys[t]
       /\ Apply(k, res.c) /\ viol' = viol \cup CommitViol(g, e) /\ g' = CommitUpd(g, e) /\ Log(req)

\* BatchRollback (one key)
Rollback(t, k) ==
    LET s == StartTs[t]
        req == [op |-> "Rollback", start |-> s, k |-> k]
        res == RollbackKey(k, s)
        e == [start |-> s, k |-> k, r |-> res.r, lts |-> 0]
    IN /\ k \in TxnKeys[t]
       /\ Apply(k, res.c) /\ viol' = viol \cup RollbackViol(g, e) /\ g' = RollbackUpd(g, e) /\ Log(req)

\* ResolveLock (one key); cts = 0 rolls back
Resolve(t, k, cts) ==
    LET s == StartTs[t]
        req == [op |-> "Resolve", start |-> s, commit |-> cts, k |-> k]
        sub == IF cts = 0 THEN RollbackKey(k, s) ELSE CommitKey(k, cts)
        res == IF lock[k].ts # s THEN [r |-> "ok", n |-> 0, c |-> Cols(k)]
               ELSE [r |-> sub.r, n |-> IF sub.r = "ok" THEN 1 ELSE 0, c |-> sub.c]
        e == [start |-> s, commit |-> cts, k |-> k, r |-> res.r, lts |-> 0, n |-> res.n]
    IN /\ k \in TxnKeys[t]
       /\ Apply(k, res.c) /\ viol' = viol \cup ResolveViol(g, e) /\ g' = ResolveUpd(g, e) /\ Log(req)

\* CheckTxnStatus on the transaction's primary key
Check(t, off, caller, rbne) ==
    LET s == StartTs[t]
        k == PrimaryOf[t]
        cur == s + off
        req == [op |-> "Check", start |-> s, k |-> k, cur |-> cur, caller |-> caller, rbne |-> rbne]
        lk == lock[k]
        w == WriteByStart(k, s)
        res == IF lk.ts # 0 THEN
                   IF lk.ts # s THEN [r |-> "locked", lts |-> lk.ts, act |-> "none", cv |-> 0, c |-> Cols(k)]
                   ELSE IF lk.ttl # 0 /\ cur >= lk.ts + lk.ttl      \* isLockExpired
                        THEN [r |-> "ok", lts |-> 0, act |-> "ttl", cv |-> 0, c |-> RollbackKey(k, s).c]
                   ELSE IF caller > 0 /\ lk.mc < caller + 1
                        THEN [r |-> "ok", lts |-> 0, act |-> "pushed", cv |-> 0, c |-> [Cols(k) EXCEPT !.lock.mc = caller + 1]]
                   ELSE [r |-> "ok", lts |-> 0, act |-> "none", cv |-> 0, c |-> Cols(k)]
               ELSE IF w.kind = "rollback" THEN [r |-> "ok", lts |-> 0, act |-> "notexist", cv |-> 0, c |-> Cols(k)]
               ELSE IF w.kind # "none" THEN [r |-> "ok", lts |-> 0, act |-> "none", cv |-> w.ts, c |-> Cols(k)]
               ELSE IF rbne THEN [r |-> "ok", lts |-> 0, act |-> "notexist", cv |-> 0, c |-> RollbackKey(k, s).c]
               ELSE [r |-> "ok", lts |-> 0, act |-> "none", cv |-> 0, c |-> Cols(k)]
        e == [start |-> s, k |-> k, cur |-> cur, caller |-> caller, rbne |-> rbne, r |-> res.r, lts |-> res.lts, act |-> res.act, cv |-> res.cv]
    IN /\ Apply(k, res.c) /\ viol' = viol \cup CheckViol(g, e) /\ g' = CheckUpd(g, e) /\ Log(req)

Init == /\ lock = [k \in Keys |-> NoLock] /\ writes = [k \in Keys |-> {}] /\ data = [k \in Keys |-> {}]
        /\ g = EmptyG /\ viol = {} /\ hist = <<>>

AllOps == {"Prewrite", "Commit", "Rollback", "ResolveRollback", "ResolveCommit", "Check", "CheckRollbackIfNotExist"}
Next == \E t \in Txns :
          \/ \E k \in Keys : \/ "Prewrite" \in Ops /\ \E b \in Boosts : Prewrite(t, k, b)
                             \/ "Commit" \in Ops /\ Commit(t, k)
                             \/ "Rollback" \in Ops /\ Rollback(t, k)
                             \/ "ResolveRollback" \in Ops /\ Resolve(t, k, 0)
                             \/ "ResolveCommit" \in Ops /\ Resolve(t, k, CommitTs[t])
          \/ \E a \in CheckArgs : (IF a[3] THEN "CheckRollbackIfNotExist" ELSE "Check") \in Ops /\ Check(t, a[1], a[2], a[3])
Spec == Init /\ [][Next]_vars

\* ------------------------------------------------------------------ properties
\* every request reply was consistent with the property layer
RepliesGood == viol = {}
\* C19: the lock column reports exactly the ghost's lock
LocksGood == \A k \in Keys : [ts |-> lock[k].ts, mc |-> lock[k].mc] = RefLock(g, k)
\* C17: point gets and scans return what the ghost dictates, at every probe timestamp
GetsGood  == \A k \in Keys, rt \in ReadTs : HandleGet(k, rt) = RefGet(g, k, rt)
ScansGood == \A rt \in ReadTs, from \in {0} \cup Keys, incl \in BOOLEAN, lim \in Limits :
                HandleScan(rt, from, incl, lim) = RefScan(g, rt, from, incl, lim)
\* C18: an outcome, once reached, is final
Final == [][\A x \in DOMAIN g : g[x].st \in {"committed", "rolledback"} => (x \in DOMAIN g' /\ g'[x].st = g[x].st /\ g'[x].cts = g[x].cts)]_vars
\* the columns mirror the outcome: a committed (rolled back) key has exactly its commit (rollback) record
ColumnsGood ==
    \A x \in DOMAIN g :
        LET recs == {w \in writes[x[2]] : w.start = x[1]}
        IN CASE g[x].st = "committed"  -> recs = {[ts |-> g[x].cts, kind |-> g[x].kind, start |-> x[1]]}
             [] g[x].st = "rolledback" -> recs = {[ts |-> x[1], kind |-> "rollback", start |-> x[1]]}
             [] OTHER -> recs = {}

Good == RepliesGood /\ LocksGood /\ GetsGood /\ ScansGood /\ ColumnsGood
\* on a violation the request history that led here is printed (counterexample -> replay schedule)
GoodOrCex == Good \/ (PrintT(<<"CEX", ToJson(hist)>>) /\ FALSE)

\* Behaviour generation (ACTION_CONSTRAINT of Gen_*.cfg only): uniformly random walks mostly issue requests that
\* fail or change nothing; "effective" keeps only requests with an effect, "mixed" lets every third request be
\* arbitrary, "any" is the plain random walk.
Changed == <<lock, writes, data, g>>' # <<lock, writes, data, g>>
\* "late": every second request is addressed to a (transaction, key) whose outcome is already decided
\* (re-applied commits, rollbacks after commit, commits after rollback, late prewrites, status queries).
\* "contend": every second request is a prewrite of any transaction/key with any TTL fields, whether or not the
\* model grants it (prewrites against other locks, after other commits, retried prewrites of a held lock).
LateRequest == LET r == hist'[Len(hist')] IN G(g, r.start, r.k).st \in {"committed", "rolledback"}
GenConstraint == \/ GenMode = "any" \/ Changed
                 \/ (GenMode = "mixed" /\ Len(hist) % 3 = 2)
                 \/ (GenMode = "late" /\ Len(hist) % 2 = 1 /\ Len(hist') > Len(hist) /\ LateRequest)
                 \/ (GenMode = "contend" /\ Len(hist) % 2 = 1 /\ Len(hist') > Len(hist) /\ hist'[Len(hist')].op = "Prewrite")

\* behaviour generation: the history is printed at every length from 5 on (constrained walks may end before
\* MaxHist); the check keeps the maximal ones (a history that is a prefix of another adds nothing)
EmitHist == (Len(hist) >= 5) => PrintT(<<"SCHED", ToJson(hist)>>)
=============================================================================
