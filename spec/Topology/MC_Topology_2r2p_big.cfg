SPECIFICATION Spec
CONSTANTS
 StoreIds = {0,1,2}
 MaxStores = 2
 RegionIds = {0,1}
 MaxRegions = 2
 PeerStoreIds = {0,1,3}
 PeerIds = {0,1}
 MaxPeers = 2
 LeaderIds = {0,1}
 Templates <- T1
