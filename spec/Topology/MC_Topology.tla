---------------------------- MODULE MC_Topology ----------------------------
EXTENDS Topology
\* no template configured
T1 == {<<>>}
\* templates of the design: "", "x", "x{id}"
T3 == {<<>>, <<"x">>, <<"x", "{id}">>}
\* ... plus a near miss: "{id" is not the placeholder
T4 == T3 \cup {<<"{id">>}
\* every template of at most two segments over {"x", "{id}", "{id"} (no concatenation of these forms a "{id}" by accident)
T13 == SeqsUpTo({"x", "{id}", "{id"}, 2)
=============================================================================
