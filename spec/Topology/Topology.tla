------------------------------ MODULE Topology ------------------------------
(* C38 - topology validation accepts exactly the well-formed configurations.              *)
(*                                                                                        *)
(* `Valid(f)` is the property's rule list, literally, as a predicate over a topology      *)
(* record.  TLC is used as enumerator and oracle: it evaluates `Valid` on EVERY topology  *)
(* of a bounded domain and writes (topology, expected) pairs as ndjson; the driver        *)
(* (harness/cmd/topology) feeds each topology to the real config.File.Validate.           *)
(*                                                                                        *)
(* A topology is                                                                          *)
(*   [stores  : sequence of store ids,                                                    *)
(*    regions : sequence of [id, leader_store_id, peers : sequence of [store_id, peer_id]],*)
(*    tmpl, dtmpl : work-directory templates (host / docker scope)]                       *)
(* A template is a sequence of text segments (the driver concatenates them); the          *)
(* placeholder is the segment "{id}".  The empty sequence is "no template configured"     *)
(* (the JSON field is omitted), which is not a template without placeholder.              *)
(* leader_store_id = 0 is "no leader hint" (the property only speaks of zero ids of       *)
(* stores, regions and peers); a non-zero leader is a reference to a store.               *)
EXTENDS Integers, Sequences, FiniteSets, TLC, Json, IOUtils, SequencesExt

CONSTANTS StoreIds,      \* candidate store ids (0 = the defect "zero store id")
          MaxStores,
          RegionIds, MaxRegions,
          PeerStoreIds, PeerIds, MaxPeers,
          LeaderIds,
          Templates      \* set of templates (sequences of segments)

SeqsUpTo(S, n) == UNION {[1..k -> S] : k \in 0..n}
Elems(s) == {s[i] : i \in DOMAIN s}

Peers   == [store_id : PeerStoreIds, peer_id : PeerIds]
Regions == [id : RegionIds, leader_store_id : LeaderIds, peers : SeqsUpTo(Peers, MaxPeers)]
Topologies == [stores  : SeqsUpTo(StoreIds, MaxStores),
               regions : SeqsUpTo(Regions, MaxRegions),
               tmpl    : Templates,
               dtmpl   : Templates]

-----------------------------------------------------------------------------
(* The five defects of the property statement. *)
ZeroStoreId(f)      == \E i \in DOMAIN f.stores : f.stores[i] = 0
DuplicateStoreId(f) == \E i, j \in DOMAIN f.stores : i # j /\ f.stores[i] = f.stores[j]
ZeroRegionId(f)     == \E r \in Elems(f.regions) : r.id = 0
ZeroPeerField(f)    == \E r \in Elems(f.regions) : \E p \in Elems(r.peers) : p.store_id = 0 \/ p.peer_id = 0
\* a region refers to a store through its peers and through its (non-zero) leader hint
UnknownStore(f)     == \E r \in Elems(f.regions) :
                          \/ \E p \in Elems(r.peers) : p.store_id # 0 /\ p.store_id \notin Elems(f.stores)
                          \/ r.leader_store_id # 0 /\ r.leader_store_id \notin Elems(f.stores)
HasPlaceholder(t)   == \E i \in DOMAIN t : t[i] = "{id}"
BadTemplate(f)      == \E t \in {f.tmpl, f.dtmpl} : t # <<>> /\ ~HasPlaceholder(t)

Defects(f) == {d \in {"zero-store-id", "duplicate-store-id", "zero-region-id", "zero-peer-field",
                      "unknown-store", "template-without-id"} :
                 \/ d = "zero-store-id"       /\ ZeroStoreId(f)
                 \/ d = "duplicate-store-id"  /\ DuplicateStoreId(f)
                 \/ d = "zero-region-id"      /\ ZeroRegionId(f)
                 \/ d = "zero-peer-field"     /\ ZeroPeerField(f)
                 \/ d = "unknown-store"       /\ UnknownStore(f)
                 \/ d = "template-without-id" /\ BadTemplate(f)}

\* "rejects every topology with <defect>; accepts every topology without those defects"
Valid(f) == Defects(f) = {}

-----------------------------------------------------------------------------
(* Enumeration: one ndjson line per topology of the domain. *)
Case(f) == [t |-> f, valid |-> Valid(f), defects |-> SetToSeq(Defects(f))]

Emit == ndJsonSerialize(IOEnv.OUT, SetToSeq({Case(f) : f \in Topologies}))
ASSUME Emit
ASSUME PrintT(<<"TOPOLOGIES", Cardinality(Topologies)>>)

\* TLC needs a behaviour specification; there is nothing to explore.
VARIABLE done
Init == done = TRUE
Next == UNCHANGED done
Spec == Init /\ [][Next]_done
=============================================================================
