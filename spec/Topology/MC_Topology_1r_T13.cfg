SPECIFICATION Spec
CONSTANTS
 StoreIds = {0,1,2}
 MaxStores = 2
 RegionIds = {0,1}
 MaxRegions = 1
 PeerStoreIds = {0,1,3}
 PeerIds = {0,1,3}
 MaxPeers = 1
 LeaderIds = {0,1,3}
 Templates <- T13
