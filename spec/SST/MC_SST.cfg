SPECIFICATION Spec
CONSTANTS
 Alphabet = {0, 97}
 MaxLen = 1
 CFs = {0}
 Vers = {1, 3, 1000000}
 TargetVers = {0, 1, 2, 3, 1000000}
 MaxEntries = 3
 Deviations = {}
INVARIANTS TypeOK SeekAscOK SeekDescOK SearchOK StoredFound
CHECK_DEADLOCK FALSE
