SPECIFICATION Spec
CONSTANTS
 Alphabet = {0, 97}
 MaxLen = 2
 CFs = {0}
 Vers = {1, 3}
 TargetVers = {0, 1, 2, 3, 1000000}
 MaxEntries = 4
 Deviations = {}
INVARIANTS TypeOK SeekAscOK SeekDescOK SearchOK StoredFound
CHECK_DEADLOCK FALSE
