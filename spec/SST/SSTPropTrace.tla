--------------------------- MODULE SSTPropTrace ---------------------------
(* Property layer for C35: every answer of a built (and of the reopened) SST table must be *)
(* the answer of the sorted entry sequence it was built from.  Nothing here knows about    *)
(* blocks, indexes, caches or bloom bits.  An entry is [cf, k, ver, val]; val is an opaque *)
(* token for (payload, meta, expiry).                                                      *)
EXTENDS Integers, Sequences, FiniteSets, TLC, Json, IOUtils, SequencesExt, KeyOrder

Trace == ndJsonDeserialize(IOEnv.TRACE)

VARIABLES l,        \* next trace line to explain
          ents,     \* the entries the table was built from, in internal-key order
          keys      \* their internal keys (same positions)
vars == <<l, ents, keys>>

K(r) == [cf |-> r.cf, k |-> r.k, ver |-> r.ver]
E(r) == [cf |-> r.cf, k |-> r.k, ver |-> r.ver, val |-> r.val]
Init == l = 1 /\ ents = <<>> /\ keys = <<>>

ev == Trace[l]
IsEvent(name) == l <= Len(Trace) /\ ev.e = name /\ l' = l + 1
Report(want) == PrintT(<<"MISMATCH", l, ToJson(want)>>)
Expect(got, want) == got = want \/ (got # want /\ Report(want))

Reset == IsEvent("Reset") /\ ents' = <<>> /\ keys' = <<>>

\* The table is built from ev.entries. The builder is fed a strictly sorted sequence (as flush and
\* compaction do); an unsorted input is not a case of this property, so such an event is not a step.
Build == /\ IsEvent("Build")
         /\ \A i \in 1..(Len(ev.entries) - 1) : KeyLess(K(ev.entries[i]), K(ev.entries[i + 1]))
         /\ ents' = [i \in 1..Len(ev.entries) |-> E(ev.entries[i])]
         /\ keys' = [i \in 1..Len(ev.entries) |-> K(ev.entries[i])]
         /\ Expect(ev.keycount, Len(ev.entries))

\* closing the table and opening the file again changes nothing
Reopen == IsEvent("Reopen") /\ Expect(ev.keycount, Len(ents)) /\ UNCHANGED <<ents, keys>>

-----------------------------------------------------------------------------
\* point lookup: the first entry >= probe if it has the probe's column family and user key, i.e. the
\* stored version of that user key with the greatest version <= the probe's; a stored key finds itself
SearchIdx(p) == LET i == LowerBound(keys, p)
                IN IF i <= Len(keys) /\ SameUser(keys[i], p) THEN i ELSE 0
SearchOK(r, p) == LET i == SearchIdx(p)
                  IN IF i = 0 THEN r.found = FALSE ELSE r.found = TRUE /\ E(r) = ents[i]
Search == /\ IsEvent("Search")
          /\ LET ok == Len(ev.rs) = Len(ev.ps) /\ \A i \in 1..Len(ev.ps) : SearchOK(ev.rs[i], K(ev.ps[i]))
             IN ok \/ (~ok /\ Report([i \in 1..Len(ev.ps) |->
                                        LET j == SearchIdx(K(ev.ps[i])) IN IF j = 0 THEN <<>> ELSE <<ents[j]>>]))
          /\ UNCHANGED <<ents, keys>>

\* bloom filter: no false negative for a stored user key (ks[i] = [cf, k]; rs[i] = MayContain)
Stored(u) == LET i == LowerBound(keys, [cf |-> u.cf, k |-> u.k, ver |-> MAXV])
             IN i <= Len(keys) /\ keys[i].cf = u.cf /\ keys[i].k = u.k
Bloom == /\ IsEvent("Bloom")
         /\ LET ok == Len(ev.rs) = Len(ev.ks) /\ \A i \in 1..Len(ev.ks) : Stored(ev.ks[i]) => ev.rs[i] = TRUE
            IN ok \/ (~ok /\ Report([i \in 1..Len(ev.ks) |-> Stored(ev.ks[i])]))
         /\ UNCHANGED <<ents, keys>>

\* entries an iterator yields after Seek(t): ascending = entries >= t in order; descending = entries <= t
\* in reverse order (at most lim when lim > 0)
Cnt(n, lim) == IF lim > 0 /\ n > lim THEN lim ELSE n
AscFrom(t, lim)  == LET i == LowerBound(keys, t) IN [j \in 1..Cnt(Len(keys) - i + 1, lim) |-> ents[i + j - 1]]
DescFrom(t, lim) == LET i == UpperBound(keys, t) - 1 IN [j \in 1..Cnt(i, lim) |-> ents[i - j + 1]]

\* full iteration after Rewind
Iter == /\ IsEvent("Iter")
        /\ Expect(ev.out, IF ev.asc THEN ents ELSE Reverse(ents))
        /\ UNCHANGED <<ents, keys>>

Seek == /\ IsEvent("Seek")
        /\ Expect(ev.outs, [i \in 1..Len(ev.ts) |-> IF ev.asc THEN AscFrom(K(ev.ts[i]), ev.lim)
                                                               ELSE DescFrom(K(ev.ts[i]), ev.lim)])
        /\ UNCHANGED <<ents, keys>>

Next == Reset \/ Build \/ Reopen \/ Search \/ Bloom \/ Iter \/ Seek
Spec == Init /\ [][Next]_vars

TraceAccepted ==
    LET d == TLCGet("stats").diameter
    IN PrintT(<<"TRACE_HW", d - 1, Len(Trace)>>) /\ d - 1 = Len(Trace)
=============================================================================
