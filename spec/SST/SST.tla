-------------------------------- MODULE SST --------------------------------
(* C35: an SST table serves exactly the sorted entry sequence it was built from.           *)
(*                                                                                         *)
(* Reference layer: the table is the sorted sequence `flat`; Search, Seek (ascending:      *)
(* first entry >= target, descending: last entry <= target) and iteration are defined on   *)
(* it (KeyOrder!FromAsc / FromDesc / LowerBound).                                          *)
(* Implementation-shaped layer: what lsm/table.go does - the sequence is cut into data     *)
(* blocks, the index holds each block's first key, tableIterator.Seek picks the LAST block *)
(* whose first key is <= target and seeks inside it (blockIterator.seek), iteration walks  *)
(* on block by block.  TLC checks, for every key subset of a small universe, EVERY way of  *)
(* cutting it into blocks and every target, that the block-wise algorithm returns what the *)
(* reference does.  The deviation "SeekStopsAtBlockEnd" is the behaviour of the tree       *)
(* before the fix recorded in findings/known.d/sst.json: an ascending seek whose target is *)
(* greater than every entry of the chosen block reported EOF instead of moving to the next *)
(* block.                                                                                   *)
(* The same spec is the case generator: every (entries, cuts) state is printed as a CASE.  *)
EXTENDS Integers, Sequences, FiniteSets, TLC, Json, SequencesExt, KeyOrder

CONSTANTS Alphabet, MaxLen, \* user keys = byte sequences over Alphabet up to MaxLen (prefix-related on purpose)
          CFs, Vers,   \* stored keys = CFs x UserKeys x Vers
          TargetVers,  \* versions of probes / seek targets
          MaxEntries,  \* entries per table
          Deviations   \* subset of {"SeekStopsAtBlockEnd"}

UserKeys == UNION {[1..n -> Alphabet] : n \in 0..MaxLen}
Keys    == [cf : CFs, k : UserKeys, ver : Vers]
Targets == [cf : CFs, k : UserKeys, ver : TargetVers]

VARIABLES flat,    \* the sorted sequence the table was built from
          cuts,    \* set of positions i (1 <= i < Len(flat)) after which a new block starts
          built
vars == <<flat, cuts, built>>

Init == flat = <<>> /\ cuts = {} /\ built = FALSE

Build(S, C) == /\ ~built
               /\ flat' = SetToSortSeq(S, KeyLess)
               /\ cuts' = C
               /\ built' = TRUE

Next == \E S \in SUBSET Keys :
           /\ S # {} /\ Cardinality(S) <= MaxEntries
           /\ \E C \in SUBSET (1..(Cardinality(S) - 1)) : Build(S, C)
Spec == Init /\ [][Next]_vars

-----------------------------------------------------------------------------
\* ---- reference ----
RefSeekAsc(t)  == FromAsc(flat, t, 0)
RefSeekDesc(t) == FromDesc(flat, t, 0)
\* point lookup (table.Search): the first entry >= probe if it has the probe's user key
RefSearch(p) == LET i == LowerBound(flat, p)
                IN IF i <= Len(flat) /\ SameUser(flat[i], p) THEN <<flat[i]>> ELSE <<>>

\* ---- blocks (lsm/builder.go: consecutive runs; index entry = first key of the block) ----
Starts   == {1} \cup {i + 1 : i \in cuts}                  \* positions where blocks start
BlockOf(i) == CHOOSE s \in Starts : s <= i /\ \A u \in Starts : u <= i => u <= s
BlockEnd(s) == LET later == {u \in Starts : u > s}
               IN IF later = {} THEN Len(flat) ELSE (CHOOSE u \in later : \A w \in later : u <= w) - 1

\* tableIterator.Seek, ascending: sort.Search for the first block with baseKey > key, use the one before it
\* (block 0 if there is none before); blockIterator.seek = first entry >= key inside that block
ImplSeekAsc(t) ==
    LET le == {s \in Starts : KeyLeq(flat[s], t)}
        s  == IF le = {} THEN 1 ELSE CHOOSE x \in le : \A y \in le : y <= x
        e  == BlockEnd(s)
        in == {i \in s..e : KeyLeq(t, flat[i])}
    IN IF in # {} THEN SubSeq(flat, CHOOSE i \in in : \A j \in in : i <= j, Len(flat))
       ELSE IF "SeekStopsAtBlockEnd" \in Deviations \/ e = Len(flat) THEN <<>>   \* io.EOF
       ELSE SubSeq(flat, e + 1, Len(flat))                                       \* first entry of the next block

\* descending: same block choice (none if every baseKey > key); inside: last entry <= key
ImplSeekDesc(t) ==
    LET le == {s \in Starts : KeyLeq(flat[s], t)}
    IN IF le = {} THEN <<>>
       ELSE LET s  == CHOOSE x \in le : \A y \in le : y <= x
                in == {i \in s..BlockEnd(s) : KeyLeq(flat[i], t)}
                i  == CHOOSE x \in in : \A y \in in : y <= x
            IN Reverse(SubSeq(flat, 1, i))

\* table.Search: ascending Seek, hit iff the landing entry has the probe's user key
ImplSearch(p) == LET r == ImplSeekAsc(p)
                 IN IF r # <<>> /\ SameUser(r[1], p) THEN <<r[1]>> ELSE <<>>

-----------------------------------------------------------------------------
TypeOK == /\ \A i \in 1..(Len(flat) - 1) : KeyLess(flat[i], flat[i + 1])
          /\ cuts \subseteq 1..(Len(flat) - 1)

SeekAscOK  == built => \A t \in Targets : ImplSeekAsc(t) = RefSeekAsc(t)
SeekDescOK == built => \A t \in Targets : ImplSeekDesc(t) = RefSeekDesc(t)
SearchOK   == built => \A t \in Targets : ImplSearch(t) = RefSearch(t)
\* every stored key is found by a point lookup of exactly that key
StoredFound == built => \A i \in 1..Len(flat) : ImplSearch(flat[i]) = <<flat[i]>>

EmitCase == built => PrintT(<<"CASE", ToJson([entries |-> flat, cuts |-> SetToSortSeq(cuts, <)])>>)
=============================================================================
