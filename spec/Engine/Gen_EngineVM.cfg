SPECIFICATION Spec
CONSTANTS
 Keys = {1,2}
 Vers = {1,2,3}
 Vals = {"a","b","c"}
 MaxFid = 40
 MaxWrites = 6
 MaxImm = 3
 MaxL0 = 4
 MaxHist = 14
 Enabled = {"Reopen","GC","Versioned","Monotone"}
INVARIANT EmitHist
CHECK_DEADLOCK FALSE
