---------------------------- MODULE EngineTrace ----------------------------
(* Implementation-level trace validation for the Engine family (DESIGN.md 2.2 M3 / 2.3 rule 3).    *)
(* A schedule executed on the real engine is replayed against Engine.tla's OWN actions: after      *)
(* every operation the driver records, for each key, where its copies physically live (memtable,   *)
(* sealed memtables, L0 tables newest first, ingest buffer, main run) and which value each copy    *)
(* holds; TLC must find a behaviour of Engine.tla whose layout matches after every step.           *)
(* A rejection means the specification no longer describes the mechanism ("DRIFT"): it never      *)
(* changes a check's exit status, verdicts come from the property layer (KVRefTrace.tla).          *)
EXTENDS Engine, IOUtils

Trace == ndJsonDeserialize(IOEnv.TRACE)
VARIABLE l
tvars == <<vars, l>>

ev == Trace[l]
IsEvent(name) == l <= Len(Trace) /\ ev.e = name /\ l' = l + 1

\* observation of one key in a state: memtables and L0 in lookup order, ingest copies as a sorted
\* sequence (their relative order is not observable), the copy in each main run
ObsSeq(k) ==
    LET mems == <<mem>> \o [i \in 1..Len(imm) |-> imm[Len(imm) + 1 - i].data]
        kinds == <<"mem">> \o [i \in 1..Len(imm) |-> "imm"]
        ts   == Reverse(FidAsc(L0))
        part1 == [i \in 1..Len(mems) |-> <<kinds[i], mems[i][<<k, MAXV>>]>>]
        part2 == [i \in 1..Len(ts) |-> <<"l0", ts[i].data[<<k, MAXV>>]>>]
    IN SelectSeq(part1 \o part2, LAMBDA p : p[2] # NONE)
BagOf(S, k) == LET vs == {t \in S : Has(t.data, <<k, MAXV>>)}
               IN [v \in {t.data[<<k, MAXV>>] : t \in vs} |-> Cardinality({t \in vs : t.data[<<k, MAXV>>] = v})]
\* logged: ev.sig[key] = [seq |-> <<<<kind, val>>, ...>>, ing |-> <<vals>>, m1 |-> <<vals>>, m2 |-> <<vals>>]
BagOfSeq(s) == [v \in {s[i] : i \in 1..Len(s)} |-> Cardinality({i \in 1..Len(s) : s[i] = v})]
KeyName(k) == CHOOSE n \in DOMAIN ev.sig : ev.sig[n].key = k
Match ==
    \A k \in Keys :
        LET o == ev.sig[KeyName(k)] IN
        /\ [i \in 1..Len(o.seq) |-> <<o.seq[i][1], o.seq[i][2]>>] = ObsSeq(k)'
        /\ BagOfSeq(o.ing) = BagOf(ing1, k)'
        /\ BagOfSeq(o.m1) = BagOf(main1, k)'
        /\ BagOfSeq(o.m2) = BagOf(main2, k)'

Stutter == UNCHANGED vars
TInit == Init /\ l = 1
TReset == /\ IsEvent("Reset")          \* back to Engine's initial state
          /\ mem' = Empty /\ memSeg' = 1 /\ imm' = <<>> /\ L0' = {} /\ ing1' = {} /\ main1' = {} /\ main2' = {}
          /\ nextFid' = 2 /\ ref' = Empty /\ writes' = 0 /\ hist' = <<>> /\ taint' = {} /\ l0out' = {}

TWrite == /\ l <= Len(Trace) /\ ev.e \in {"Set", "Del"} /\ l' = l + 1
          /\ Write(ev.k, MAXV, IF ev.e = "Del" THEN DEL ELSE ev.v)
TRotate == IsEvent("Rotate") /\ Rotate
TFlush == IsEvent("Flush") /\ (IF ev.done THEN Flush ELSE Stutter)
\* the planner may decline a forced L0 move / ingest compaction only when there is nothing to move (no other
\* compaction runs in these schedules): a refusal with work pending means a reservation was left behind in
\* the compaction state (CompactState.tla, ReleaseExact)
TMoveL0 == IsEvent("MoveL0") /\ (IF ev.done THEN MoveL0 ELSE (L0 = {} /\ Stutter))
TIngestMerge == IsEvent("IngestMerge") /\ (IF ev.done THEN IngestCompact(TRUE) ELSE (ing1 = {} /\ Stutter))
TIngestDrain == IsEvent("IngestDrain") /\ (IF ev.done THEN IngestCompact(FALSE) ELSE (ing1 = {} /\ Stutter))
TCompactL1 == IsEvent("CompactL1") /\ (IF ev.done THEN CompactL1 ELSE Stutter)
TReopen == IsEvent("Reopen") /\ Reopen

TStep == TWrite \/ TRotate \/ TFlush \/ TMoveL0 \/ TIngestMerge \/ TIngestDrain \/ TCompactL1 \/ TReopen
\* the ghosts of Engine's Next must still be assigned
TNext == \/ TReset
         \/ (TStep /\ Ghosts({}) /\ Match)
TSpec == TInit /\ [][TNext]_tvars

TraceAccepted ==
    LET d == TLCGet("stats").diameter
    IN PrintT(<<"TRACE_HW", d - 1, Len(Trace)>>) /\ d - 1 = Len(Trace)
=============================================================================
