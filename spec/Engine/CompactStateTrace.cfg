SPECIFICATION Spec
POSTCONDITION TraceAccepted
CHECK_DEADLOCK FALSE
