------------------------------- MODULE Engine -------------------------------
(* Implementation-shaped specification of NoKV's LSM read path and maintenance       *)
(* (lsm/lsm.go, lsm/levels.go, lsm/ingest.go, lsm/executor.go, compact/plan_*.go).     *)
(*                                                                                    *)
(* One action per critical section of the code:                                       *)
(*   Write        db_write.go -> lsm.SetBatch -> memTable.setBatch                     *)
(*   Rotate       lsm.rotateLocked (seal active memtable, fresh fid for the new one)   *)
(*   Flush        levelManager.flush (oldest sealed memtable -> L0 table, fid = seg id)*)
(*   MoveL0       moveToIngest (PlanForL0ToLbase prefix of L0 -> ingest buffer of L1)   *)
(*   L0ToL0       fillTablesL0ToL0 + compactBuildTables (newest fid first wins)         *)
(*   IngestMerge  IngestKeep:  first b shard tables (min-key order) merged, stay ingest *)
(*   IngestDrain  IngestDrain: first b shard tables merged with overlapping main run    *)
(*   CompactL1    PlanForRegular: one L1 main table + overlapping L2 tables -> L2       *)
(*   Reopen       Close + Open: WAL replay; newest memtable active again, older flushed *)
(*   FailWrite    a commit batch refused by an I/O error (value-log append / rotation,  *)
(*                WAL write): db_write.go commitWorker -> finishCommitRequests(err);    *)
(*                valueLog.write rewinds the value log: the batch leaves no trace        *)
(*                                                                                    *)
(* Entries carry a version; the plain API writes every entry at MAXV, so recency must  *)
(* come from the order in which sources are consulted (property C01); the versioned    *)
(* API (C02) writes arbitrary versions, also out of order.                             *)
(*                                                                                    *)
(* The reference model is the ghost variable ref (last write per (key, version)).       *)
(* Named deviations of the code from the property are characterised by witness         *)
(* predicates: the gating invariant says reads are right unless a witness holds.       *)
EXTENDS Integers, Sequences, FiniteSets, SequencesExt, FiniteSetsExt, TLC, Json

CONSTANTS Keys,        \* a set of integers (user keys, ordered)
          Vers,        \* versions that may be written (MAXV = plain API)
          Vals,        \* value tokens
          MaxFid, MaxWrites, MaxImm, MaxL0, MaxHist,
          Enabled      \* subset of options: "L0ToL0", "Reopen", "GC", "Versioned", "Monotone", "Fault"

MAXV == 1000000
NONE == "none"
DEL  == "del"

Cell == Keys \X Vers
Data == [Cell -> Vals \cup {NONE, DEL}]
Empty == [c \in Cell |-> NONE]

VARIABLES mem, memSeg, imm, L0, ing1, main1, main2, nextFid, ref, writes, hist,
          taint,  \* ghost: keys that have ever been in a recorded-deviation witness state
          l0out   \* ghost: fids of L0 tables that are outputs of an L0->L0 compaction
vars  == <<mem, memSeg, imm, L0, ing1, main1, main2, nextFid, ref, writes, hist, taint, l0out>>
view  == <<mem, memSeg, imm, L0, ing1, main1, main2, nextFid, ref, writes, taint, l0out>>

Has(d, c)   == d[c] # NONE
CellsOf(d)  == {c \in Cell : Has(d, c)}
KeysOf(d)   == {c[1] : c \in CellsOf(d)}
MinK(d)     == Min(KeysOf(d))
MaxK(d)     == Max(KeysOf(d))
MaxVerOf(d) == Max({c[2] : c \in CellsOf(d)})
\* internal-key order: user key ascending, version descending
IKLess(a, b) == a[1] < b[1] \/ (a[1] = b[1] /\ a[2] > b[2])
MinIK(d)    == CHOOSE c \in CellsOf(d) : \A e \in CellsOf(d) : e = c \/ IKLess(c, e)
InRange(t, k) == k >= MinK(t.data) /\ k <= MaxK(t.data)
Overlap(a, b) == ~(MaxK(a.data) < MinK(b.data) \/ MaxK(b.data) < MinK(a.data))

\* ------------------------------------------------------------------ read path
\* greatest version <= v of key k in one source: what a seek to <<k, v>> lands on
Seek(d, k, v) == LET vs == {w \in Vers : w <= v /\ Has(d, <<k, w>>)}
                 IN IF vs = {} THEN 0 ELSE Max(vs)
Hit(d, k, w)  == [ver |-> w, val |-> d[<<k, w>>]]
Miss          == [ver |-> 0, val |-> NONE]

\* lsm.Get: active memtable, then sealed memtables newest first; first hit returns
MemLookup(k, v) ==
    LET order == <<mem>> \o [i \in 1..Len(imm) |-> imm[Len(imm) + 1 - i].data]
        idx   == {i \in 1..Len(order) : Seek(order[i], k, v) # 0}
    IN IF idx = {} THEN Miss ELSE LET d == order[Min(idx)] IN Hit(d, k, Seek(d, k, v))

\* table.Search through a candidate list: strict "greater version" replaces best
RECURSIVE ScanTables(_, _, _, _)
ScanTables(ts, k, v, best) ==
    IF ts = <<>> THEN best
    ELSE LET t == Head(ts)
             w == IF InRange(t, k) /\ MaxVerOf(t.data) > best.ver THEN Seek(t.data, k, v) ELSE 0
         IN ScanTables(Tail(ts), k, v, IF w > best.ver THEN Hit(t.data, k, w) ELSE best)

FidAsc(S) == SetToSortSeq(S, LAMBDA a, b : a.fid < b.fid)
\* searchL0SST (after the fix: newest table first)
L0Lookup(k, v) == ScanTables(Reverse(FidAsc(L0)), k, v, Miss)

\* ingest shard ranges are sorted by minimal internal key; ties are ordered arbitrarily
IngOrders(S) == {s \in SetToSeqs(S) :
                   \A i \in 1..(Len(s) - 1) : ~IKLess(MinIK(s[i+1].data), MinIK(s[i].data))}
\* ingestBuffer.search: from the last range whose min user key <= k downwards,
\* stopping when k is beyond the running maximum (prefixMax)
IngLookup(order, k, v) ==
    LET lo     == Cardinality({i \in 1..Len(order) : MinK(order[i].data) <= k})
        pmax(i) == Max({MaxK(order[j].data) : j \in 1..i})
        stop   == {i \in 1..lo : k > pmax(i)}
        from   == IF stop = {} THEN 1 ELSE Max(stop) + 1
        cand   == [i \in 1..(lo - from + 1) |-> order[lo + 1 - i]]
    IN ScanTables(cand, k, v, Miss)
MainLookup(S, k, v, best) ==
    LET c == {t \in S : InRange(t, k)}
    IN IF c = {} THEN best ELSE ScanTables(<<CHOOSE t \in c : TRUE>>, k, v, best)

LookupWith(order, k, v) ==
    LET m == MemLookup(k, v) IN IF m.ver # 0 THEN m ELSE
    LET z == L0Lookup(k, v)  IN IF z.ver # 0 THEN z ELSE
    LET o == MainLookup(main1, k, v, IngLookup(order, k, v)) IN IF o.ver # 0 THEN o ELSE
    MainLookup(main2, k, v, Miss)

\* --------------------------------------------------------- reference and property
RefLookup(k, v) == LET w == Seek(ref, k, v) IN IF w = 0 THEN Miss ELSE Hit(ref, k, w)

AllSources == {mem} \cup {imm[i].data : i \in 1..Len(imm)} \cup {t.data : t \in L0 \cup ing1 \cup main1 \cup main2}

\* Witness 1 (finding C01-ingest-tie): two tables of one ingest buffer hold the same internal key.
IngestTie(k) == \E a, b \in ing1 : a # b /\ \E w \in Vers : Has(a.data, <<k, w>>) /\ Has(b.data, <<k, w>>)
\* Witness 2 (finding C02-version-inversion): some source holds a lower version of k than another
\* source does, i.e. versions of k were not written in increasing order across sources.
VersionInversion(k) == \E a, b \in AllSources : a # b /\ \E w1, w2 \in Vers :
                           w1 < w2 /\ Has(a, <<k, w1>>) /\ Has(b, <<k, w2>>)
\* Witness 3 (finding C01-l0l0-fid): an L0->L0 output received a fid above a younger memtable's:
\* the output sits in L0 next to a table with a LOWER fid holding the same internal key. Every L0 table
\* existing at the time was merged into the output, so the lower-fid table was flushed afterwards (from a
\* memtable whose segment id is older than the output's fid) and holds the newer write, while the lookup
\* order (fid descending; the code applies that order when it reloads or next replaces L0 tables) puts
\* the output first.
L0FidInversion(k) == \E a, b \in L0 : a.fid \in l0out /\ b.fid < a.fid
                                       /\ \E w \in Vers : Has(a.data, <<k, w>>) /\ Has(b.data, <<k, w>>)

ReadCorrect(k, v) == \A order \in IngOrders(ing1) : LookupWith(order, k, v) = RefLookup(k, v)
ReadLatest == \A k \in Keys, v \in Vers : ReadCorrect(k, v)
\* gating invariant: reads are right except in states exhibiting a recorded deviation witness
Witness(k) == IngestTie(k) \/ VersionInversion(k) \/ L0FidInversion(k)
ReadLatestModuloKnown == \A k \in Keys \ taint : \A v \in Vers : ReadCorrect(k, v)
\* no write is ever lost from storage: the reference entry exists in some source
NothingLost == \A c \in Cell : (Has(ref, c) /\ c[1] \notin taint) => \E d \in AllSources : d[c] = ref[c]
Disjoint(S) == \A a, b \in S : a # b => ~Overlap(a, b)
MainDisjoint == Disjoint(main1) /\ Disjoint(main2)

\* ---------------------------------------------------------------------- actions
\* merge as compactBuildTables/MergeIterator do it: leftmost iterator wins equal internal keys
MergeData(ds) == [c \in Cell |->
    LET idx == {i \in 1..Len(ds) : Has(ds[i], c)} IN IF idx = {} THEN NONE ELSE ds[Min(idx)][c]]
MainData(S) == [c \in Cell |-> LET h == {t \in S : Has(t.data, c)} IN
                                IF h = {} THEN NONE ELSE (CHOOSE t \in h : TRUE).data[c]]
Log(rec) == hist' = IF Len(hist) < MaxHist THEN Append(hist, rec) ELSE hist

Init == /\ mem = Empty /\ memSeg = 1 /\ imm = <<>> /\ L0 = {} /\ ing1 = {} /\ main1 = {} /\ main2 = {}
        /\ nextFid = 2 /\ ref = Empty /\ writes = 0 /\ hist = <<>> /\ taint = {} /\ l0out = {}

Write(k, w, val) ==
    /\ writes < MaxWrites
    /\ w = MAXV \/ "Versioned" \in Enabled
    \* "Monotone": versions of a key are written in non-decreasing order (what MVCC users do)
    /\ "Monotone" \in Enabled => \A u \in Vers : Has(ref, <<k, u>>) => u <= w
    /\ mem' = [mem EXCEPT ![<<k, w>>] = val]
    /\ ref' = [ref EXCEPT ![<<k, w>>] = val]
    /\ writes' = writes + 1
    /\ Log([op |-> IF val = DEL THEN "Del" ELSE "Set", k |-> k, ver |-> w, v |-> val])
    /\ UNCHANGED <<memSeg, imm, L0, ing1, main1, main2, nextFid>>

\* A commit batch (one request per key of ks) refused by an I/O error: every request reports the error and
\* nothing of the batch may ever become visible -- not after value-log GC, flush, compaction or reopen
\* either. At this abstraction (values, not value-log records) the action changes nothing but the write
\* budget; what it adds is its PLACEMENT in generated behaviours: the driver arms a one-shot injected
\* error in the real engine's filesystem for the duration of these writes.
FailWrite(ks) ==
    /\ "Fault" \in Enabled /\ writes < MaxWrites /\ ks # {}
    /\ writes' = writes + 1
    /\ Log([op |-> "FailSet", ks |-> SetToSortSeq(ks, LAMBDA a, b : a < b), v |-> "x"])
    /\ UNCHANGED <<mem, memSeg, imm, L0, ing1, main1, main2, nextFid, ref>>

Rotate == /\ CellsOf(mem) # {} /\ Len(imm) < MaxImm /\ nextFid <= MaxFid
          /\ imm' = Append(imm, [seg |-> memSeg, data |-> mem])
          /\ mem' = Empty /\ memSeg' = nextFid /\ nextFid' = nextFid + 1
          /\ Log([op |-> "Rotate"])
          /\ UNCHANGED <<L0, ing1, main1, main2, ref, writes>>

Flush == /\ imm # <<>> /\ Cardinality(L0) < MaxL0
         /\ L0' = L0 \cup {[fid |-> Head(imm).seg, data |-> Head(imm).data]}
         /\ imm' = Tail(imm)
         /\ Log([op |-> "Flush"])
         /\ UNCHANGED <<mem, memSeg, ing1, main1, main2, nextFid, ref, writes>>

\* PlanForL0ToLbase: prefix (ascending fid) of tables overlapping the accumulated range
L0Prefix == LET ts == FidAsc(L0)
                RECURSIVE Take(_, _, _)
                Take(i, lo, hi) ==
                    IF i > Len(ts) THEN {}
                    ELSE IF i = 1 \/ ~(MaxK(ts[i].data) < lo \/ hi < MinK(ts[i].data))
                         THEN {ts[i]} \cup Take(i + 1,
                                  IF i = 1 THEN MinK(ts[i].data) ELSE Min({lo, MinK(ts[i].data)}),
                                  IF i = 1 THEN MaxK(ts[i].data) ELSE Max({hi, MaxK(ts[i].data)}))
                         ELSE {}
            IN Take(1, 0, 0)
MoveL0 == /\ L0 # {}
          /\ LET out == L0Prefix IN L0' = L0 \ out /\ ing1' = ing1 \cup out
          /\ Log([op |-> "MoveL0"])
          /\ UNCHANGED <<mem, memSeg, imm, main1, main2, nextFid, ref, writes>>

\* L0 -> L0 (needs >= 4 tables in the code; 2 here): newest fid first wins; fresh fid
L0ToL0 == /\ "L0ToL0" \in Enabled /\ Cardinality(L0) >= 2 /\ nextFid <= MaxFid
          /\ LET ts == FidAsc(L0)
                 d  == MergeData([i \in 1..Len(ts) |-> ts[Len(ts) + 1 - i].data])
             IN L0' = {[fid |-> nextFid, data |-> d]}
          /\ nextFid' = nextFid + 1
          /\ Log([op |-> "L0ToL0"])
          /\ UNCHANGED <<mem, memSeg, imm, ing1, main1, main2, ref, writes>>

\* ingest compaction of the first b tables of the shard (sh.tables sorted by min key);
\* iteratorsReversed(top) then the overlapping main tables
IngestCompact(keep) ==
    /\ ing1 # {} /\ nextFid <= MaxFid
    /\ \E order \in IngOrders(ing1) : \E b \in 1..Len(order) :
         LET top  == [i \in 1..b |-> order[i]]
             topS == {top[i] : i \in 1..b}
             lo   == Min({MinK(t.data) : t \in topS})
             hi   == Max({MaxK(t.data) : t \in topS})
             bot  == {t \in main1 : ~(MaxK(t.data) < lo \/ hi < MinK(t.data))}
             d    == MergeData([i \in 1..b |-> top[b + 1 - i].data] \o <<MainData(bot)>>)
             nt   == [fid |-> nextFid, data |-> d]
         IN IF keep THEN /\ ing1' = (ing1 \ topS) \cup {nt} /\ main1' = main1
                    ELSE /\ ing1' = ing1 \ topS /\ main1' = (main1 \ bot) \cup {nt}
    /\ nextFid' = nextFid + 1
    /\ Log([op |-> IF keep THEN "IngestMerge" ELSE "IngestDrain"])
    /\ UNCHANGED <<mem, memSeg, imm, L0, main2, ref, writes>>

CompactL1 == /\ main1 # {} /\ nextFid <= MaxFid
             /\ \E t \in main1 :
                  LET bot == {u \in main2 : Overlap(t, u)}
                      nt  == [fid |-> nextFid, data |-> MergeData(<<t.data, MainData(bot)>>)]
                  IN /\ main1' = main1 \ {t} /\ main2' = (main2 \ bot) \cup {nt}
             /\ nextFid' = nextFid + 1
             /\ Log([op |-> "CompactL1"])
             /\ UNCHANGED <<mem, memSeg, imm, L0, ing1, ref, writes>>

\* Close + Open (LSM.recovery): every WAL segment above the log pointer is replayed into a memtable;
\* the newest non-empty one becomes the ACTIVE memtable again (same segment id), the older ones are
\* sealed and flushed in order. Only when nothing was recovered a fresh memtable (fresh fid) is created.
Reopen == /\ "Reopen" \in Enabled
          /\ Cardinality(L0) + Len(imm) <= MaxL0
          /\ L0' = L0 \cup {[fid |-> imm[i].seg, data |-> imm[i].data] : i \in 1..Len(imm)}
          /\ imm' = <<>>
          /\ IF CellsOf(mem) # {} THEN UNCHANGED <<mem, memSeg, nextFid>>
             ELSE /\ nextFid <= MaxFid /\ mem' = Empty /\ memSeg' = nextFid /\ nextFid' = nextFid + 1
          /\ Log([op |-> "Reopen"])
          /\ UNCHANGED <<ing1, main1, main2, ref, writes>>

\* value-log GC re-inserts live entries under their own internal key through the write path;
\* at this abstraction (values, not pointers) it must be a no-op. Value indirection is in Vlog.tla.
GC == /\ "GC" \in Enabled /\ Log([op |-> "GC"])
      /\ UNCHANGED <<mem, memSeg, imm, L0, ing1, main1, main2, nextFid, ref, writes>>

Step == \/ \E k \in Keys, w \in Vers : \E val \in Vals \cup {DEL} : Write(k, w, val)
        \/ \E ks \in SUBSET Keys : FailWrite(ks)
        \/ Rotate \/ Flush \/ MoveL0 \/ IngestCompact(TRUE) \/ IngestCompact(FALSE)
        \/ CompactL1 \/ Reopen \/ GC
\* ghosts are maintained here: l0out keeps the fids of L0->L0 outputs while they are in L0
Ghosts(newOut) == /\ l0out' = {f \in l0out \cup newOut : \E t \in L0' : t.fid = f}
                  /\ taint' = taint \cup {k \in Keys : Witness(k)'}
Next == \/ Step /\ Ghosts({})
        \/ L0ToL0 /\ Ghosts({nextFid})
Spec == Init /\ [][Next]_vars

\* ----------------------------------------------------------- schedule generation
\* In generation mode every behaviour's action history is printed as JSON once it is complete.
EmitHist == (Len(hist) = MaxHist) => PrintT(<<"SCHED", ToJson(hist)>>)

\* Transition/layout cover: in a breadth-first run (hist outside the VIEW, so every view state keeps the
\* history of the first = shortest path reaching it) every state prints the layout signature of each key:
\* the sources holding it, in lookup order, with the version and whether that copy is the reference value.
\* The check keeps one shortest history per distinct signature ("one implementation test per layout").
SrcSig(tag, d, k) == [w \in {v \in Vers : Has(d, <<k, v>>)} |-> <<tag, w, d[<<k, w>>] = ref[<<k, w>>]>>]
KeySig(k) ==
    LET mems == <<SrcSig("mem", mem, k)>> \o [i \in 1..Len(imm) |-> SrcSig("imm", imm[Len(imm) + 1 - i].data, k)]
        l0   == LET ts == Reverse(FidAsc(L0)) IN [i \in 1..Len(ts) |-> SrcSig("l0", ts[i].data, k)]
        ing  == {SrcSig("ing1", t.data, k) : t \in ing1}
        m1   == {SrcSig("main1", t.data, k) : t \in main1}
        m2   == {SrcSig("main2", t.data, k) : t \in main2}
    IN <<SelectSeq(mems \o l0, LAMBDA f : DOMAIN f # {}), {f \in ing : DOMAIN f # {}},
         {f \in m1 : DOMAIN f # {}}, {f \in m2 : DOMAIN f # {}}>>
EmitCover == PrintT(<<"COVER", [k \in Keys |-> <<KeySig(k), k \in taint>>], ToJson(hist)>>)
=============================================================================
