SPECIFICATION Spec
CONSTANTS
 Keys = {1,2,3}
 Vers = {1000000}
 Vals = {"a","b","c"}
 MaxFid = 40
 MaxWrites = 8
 MaxImm = 3
 MaxL0 = 4
 MaxHist = 14
 Enabled = {"Reopen","GC","Fault"}
INVARIANT EmitHist
CHECK_DEADLOCK FALSE
