SPECIFICATION Spec
CONSTANTS
 NLevels = 2
 NBounds = 3
 Planners = {0,1,2}
 NIds = 6
 MaxHist = 0
 DeleteAsIs = FALSE
VIEW view
INVARIANT MutualExclusion
INVARIANT TableExclusion
INVARIANT ReleaseExact
CHECK_DEADLOCK FALSE
