------------------------- MODULE CompactStateTrace -------------------------
(* Property layer for the compaction range-lock table (lsm/compact/state.go), as a trace spec.   *)
(* The reference is just the set of reservations currently held by running compactions; nothing  *)
(* of the table's representation (per-level range lists, duplicate ranges, sizes) appears here.   *)
(*   - a reservation is granted iff it overlaps no held reservation on the same level             *)
(*     (granted although overlapping = two overlapping compactions run together;                   *)
(*      refused although nothing overlaps = a finished compaction left something behind);          *)
(*   - the L0 -> L0 reservation (whole of level 0) is taken without a check: recorded deviation,   *)
(*     accepted as the code does it;                                                               *)
(*   - planner-side reads (Overlaps, HasTable, HasRanges, DelSize) answer from the held set.       *)
EXTENDS Integers, Sequences, FiniteSets, TLC, Json, IOUtils

Trace == ndJsonDeserialize(IOEnv.TRACE)

VARIABLES l, held      \* held: set of [p, tl, nl, tr, nr, ids, size]
vars == <<l, held>>

ev == Trace[l]
Expect(got, want) == got = want \/ (got # want /\ PrintT(<<"MISMATCH", l, want>>))
IsEvent(name) == l <= Len(Trace) /\ ev.e = name /\ l' = l + 1

IsNone(x) == ~x.inf /\ x.l = 0 /\ x.r = 0
Meet(x, y) == ~IsNone(x) /\ ~IsNone(y) /\ (x.inf \/ y.inf \/ (x.l <= y.r /\ y.l <= x.r))
Claims(h) == {<<h.tl, h.tr>>, <<h.nl, h.nr>>}
Busy(lv, x) == \E h \in held : \E c \in Claims(h) : c[1] = lv /\ Meet(c[2], x)
SetOf(s) == {s[i] : i \in 1..Len(s)}

Init == l = 1 /\ held = {}
Reset == IsEvent("Reset") /\ held' = {}

Acquire == /\ IsEvent("Acquire")
           /\ Expect(ev.ok, ~(Busy(ev.tl, ev.tr) \/ Busy(ev.nl, ev.nr)))
           /\ held' = IF ev.ok THEN held \cup {[p |-> ev.p, tl |-> ev.tl, nl |-> ev.nl, tr |-> ev.tr, nr |-> ev.nr,
                                                ids |-> SetOf(ev.ids), size |-> 1]}
                      ELSE held
AcquireL0 == /\ IsEvent("AcquireL0")
             /\ held' = held \cup {[p |-> ev.p, tl |-> 0, nl |-> 0, tr |-> [l |-> 0, r |-> 0, inf |-> TRUE],
                                    nr |-> [l |-> 0, r |-> 0, inf |-> FALSE], ids |-> SetOf(ev.ids), size |-> 0]}
Release == /\ IsEvent("Release")
           /\ held' = {h \in held : h.p # ev.p}
Overlaps  == IsEvent("Overlaps")  /\ Expect(ev.reply, Busy(ev.level, ev.r)) /\ UNCHANGED held
HasTable  == IsEvent("HasTable")  /\ Expect(ev.reply, \E h \in held : ev.id \in h.ids) /\ UNCHANGED held
HasRanges == IsEvent("HasRanges") /\ Expect(ev.reply, held # {}) /\ UNCHANGED held
DelSize   == IsEvent("DelSize")
             /\ Expect(ev.reply, Cardinality({h \in held : h.tl = ev.level /\ h.size = 1}))
             /\ UNCHANGED held

Next == Reset \/ Acquire \/ AcquireL0 \/ Release \/ Overlaps \/ HasTable \/ HasRanges \/ DelSize
Spec == Init /\ [][Next]_vars

TraceAccepted ==
    LET d == TLCGet("stats").diameter
    IN PrintT(<<"TRACE_HW", d - 1, Len(Trace)>>) /\ d - 1 = Len(Trace)
=============================================================================
