SPECIFICATION Spec
CONSTANTS
 NLevels = 3
 NBounds = 3
 Planners = {0,1}
 NIds = 4
 MaxHist = 0
 DeleteAsIs = FALSE
VIEW view
INVARIANT MutualExclusion
INVARIANT TableExclusion
INVARIANT ReleaseExact
CHECK_DEADLOCK FALSE
