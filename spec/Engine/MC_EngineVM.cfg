SPECIFICATION Spec
CONSTANTS
 Keys = {1}
 Vers = {1,2,3}
 Vals = {"a","b"}
 MaxFid = 6
 MaxWrites = 3
 MaxImm = 2
 MaxL0 = 3
 MaxHist = 0
 Enabled = {"Reopen","Versioned","Monotone"}
VIEW view
INVARIANT ReadLatestModuloKnown
INVARIANT NothingLost
INVARIANT MainDisjoint
CHECK_DEADLOCK FALSE
