SPECIFICATION TSpec
CONSTANTS
 Keys = {1,2,3}
 Vers = {1000000}
 Vals = {"a","b","c"}
 MaxFid = 1000
 MaxWrites = 1000
 MaxImm = 100
 MaxL0 = 100
 MaxHist = 0
 Enabled = {"Reopen"}
POSTCONDITION TraceAccepted
CHECK_DEADLOCK FALSE
