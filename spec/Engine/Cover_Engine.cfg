SPECIFICATION Spec
CONSTANTS
 Keys = {1}
 Vers = {1000000}
 Vals = {"a"}
 MaxFid = 8
 MaxWrites = 3
 MaxImm = 1
 MaxL0 = 2
 MaxHist = 16
 Enabled = {"Reopen"}
VIEW view
INVARIANT EmitCover
CHECK_DEADLOCK FALSE
