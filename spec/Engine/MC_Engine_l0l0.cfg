SPECIFICATION Spec
CONSTANTS
 Keys = {1,2}
 Vers = {1000000}
 Vals = {"a","b"}
 MaxFid = 7
 MaxWrites = 3
 MaxImm = 2
 MaxL0 = 3
 MaxHist = 0
 Enabled = {"Reopen","L0ToL0"}
VIEW view
INVARIANT ReadLatestModuloKnown
INVARIANT NothingLost
INVARIANT MainDisjoint
CHECK_DEADLOCK FALSE
