---------------------------- MODULE CompactState ----------------------------
(* The compaction range-lock table of NoKV (lsm/compact/state.go), implementation-shaped.        *)
(*                                                                                                *)
(* Engine.tla models every compaction as ONE atomic action. What justifies that abstraction is    *)
(* this table: a compaction job first reserves (level, key range) pairs and the ids of its input  *)
(* tables, runs, and releases them; two jobs whose reservations overlap must never run at the     *)
(* same time, and a finished job must release exactly what it took (a range left behind blocks    *)
(* every later compaction of that key range on that level until restart).                         *)
(*                                                                                                *)
(* One action per exported call (each call is one critical section of State's mutex):             *)
(*   Acquire(p, e)    State.CompareAndAdd(LevelsLocked{}, e)   reserve or refuse                   *)
(*   AcquireL0(p)     State.AddRangeWithTables(0, InfRange, ids)  L0->L0: added WITHOUT a check,   *)
(*                    only by the designated compactor (fillTablesL0ToL0: compactorId == 0)        *)
(*   Release(p)       State.Delete(e)                                                              *)
(*   Probe*           State.Overlaps / HasTable / HasRanges / DelSize (planner-side reads)         *)
(*                                                                                                *)
(* Entry shapes are the ones the plan builders produce (lsm/compact/plan_builder.go):              *)
(*   two levels  (L0->Lbase, regular):  ThisRange on level l, NextRange on level n > l            *)
(*   same level  (ingest merge into the level's own main run, max-level rewrite): both ranges on  *)
(*               level l; NextRange = range of the overlapping "bottom" tables, or = ThisRange      *)
(* NextRange is never empty (the builders use ThisRange when there are no bottom tables).          *)
EXTENDS Integers, Sequences, FiniteSets, TLC, Json

CONSTANTS NLevels,      \* levels 0 .. NLevels-1
          NBounds,      \* key boundaries 1 .. NBounds; a range is [l, r] with l <= r
          Planners,     \* concurrent compactors (a set of integers); Min = compactor 0
          NIds,         \* table ids 1 .. NIds
          MaxHist,
          DeleteAsIs    \* TRUE: State.Delete as found (a same-level NextRange # ThisRange is left behind)

Levels == 0..(NLevels - 1)
Inf    == [l |-> 0, r |-> 0, inf |-> TRUE]
NoRng  == [l |-> 0, r |-> 0, inf |-> FALSE]              \* KeyRange{}: IsEmpty
Ranges == {x \in [l : 1..NBounds, r : 1..NBounds, inf : {FALSE}] : x.l <= x.r}
IsEmpty(x) == x = NoRng
\* KeyRange.OverlapsWith, receiver = the stored range, argument = the probed one
OverlapsWith(x, dst) == IF IsEmpty(x) THEN TRUE
                        ELSE IF IsEmpty(dst) THEN FALSE
                        ELSE IF x.inf \/ dst.inf THEN TRUE
                        ELSE ~(x.l > dst.r) /\ ~(x.r < dst.l)
\* geometric overlap (what the property talks about)
Meet(x, y) == ~IsEmpty(x) /\ ~IsEmpty(y) /\ (x.inf \/ y.inf \/ (x.l <= y.r /\ y.l <= x.r))

NoEntry == [kind |-> "none"]
VARIABLES ranges,   \* [Levels -> Seq(range)]      cs.levels[l].ranges
          tables,   \* set of table ids            cs.tables
          delSize,  \* [Levels -> Int]             cs.levels[l].delSize
          hold,     \* [Planners -> entry]         ghost: what each running compaction reserved
          hist
vars == <<ranges, tables, delSize, hold, hist>>
view == <<ranges, tables, delSize, hold>>

Log(rec) == hist' = IF Len(hist) < MaxHist THEN Append(hist, rec) ELSE hist
\* generation mode (MaxHist > 0): the last call of a sequence is fixed (one successor), so that the
\* history is printed once per behaviour and not once per candidate successor
Room == MaxHist = 0 \/ Len(hist) < MaxHist - 1

LevelOverlaps(lv, x) == \E i \in 1..Len(ranges[lv]) : OverlapsWith(ranges[lv][i], x)
RemoveAll(s, x) == SelectSeq(s, LAMBDA y : y # x)        \* levelState.remove: every equal range goes
Found(s, x) == \E i \in 1..Len(s) : s[i] = x

Init == /\ ranges = [lv \in Levels |-> <<>>] /\ tables = {} /\ delSize = [lv \in Levels |-> 0]
        /\ hold = [p \in Planners |-> NoEntry] /\ hist = <<>>

Free == (1..NIds) \ tables
\* ids of the input tables: one (top table) or two (a bottom table as well), never one already in flight
\* (callers: the range check for two-level jobs, HasTable for L0->L0)
IdChoices == IF Free = {} THEN {} ELSE
             LET a == CHOOSE i \in Free : \A j \in Free : i <= j
                 rest == Free \ {a}
             IN {{a}} \cup (IF rest = {} THEN {} ELSE {{a, CHOOSE i \in rest : \A j \in rest : i <= j}})

Entries == {[kind |-> "cas", tl |-> a, nl |-> b, tr |-> x, nr |-> y, size |-> 1, ids |-> {}] :
               a \in Levels, b \in Levels, x \in Ranges, y \in Ranges}
Shape(e) == /\ e.tl <= e.nl
            /\ (e.nr = e.tr \/ Meet(e.tr, e.nr))        \* bottom tables overlap the top range
            /\ (e.tl = 0 => e.nl > 0)                    \* L0 -> L0 goes through AcquireL0

Shaped == {e \in Entries : Shape(e)}

\* State.CompareAndAdd
Acquire(p, e0, ids) ==
    LET e == [e0 EXCEPT !.ids = ids] IN
    /\ Room /\ hold[p] = NoEntry
    /\ IF LevelOverlaps(e.tl, e.tr) \/ LevelOverlaps(e.nl, e.nr)
       THEN /\ UNCHANGED <<ranges, tables, delSize, hold>>
            /\ Log([op |-> "Acquire", p |-> p, tl |-> e.tl, nl |-> e.nl, tr |-> e.tr, nr |-> e.nr, ids |-> ids, ok |-> FALSE])
       ELSE /\ ranges' = IF e.tl = e.nl THEN [ranges EXCEPT ![e.tl] = Append(Append(@, e.tr), e.nr)]
                         ELSE [ranges EXCEPT ![e.tl] = Append(@, e.tr), ![e.nl] = Append(@, e.nr)]
            /\ delSize' = [delSize EXCEPT ![e.tl] = @ + e.size]
            /\ tables' = tables \cup ids
            /\ hold' = [hold EXCEPT ![p] = e]
            /\ Log([op |-> "Acquire", p |-> p, tl |-> e.tl, nl |-> e.nl, tr |-> e.tr, nr |-> e.nr, ids |-> ids, ok |-> TRUE])

\* State.AddRangeWithTables(0, InfRange, ids) -- L0 -> L0, compactor 0 only, no overlap check, size not counted
L0Planner == CHOOSE p \in Planners : \A q \in Planners : p <= q
AcquireL0(p, ids) ==
    /\ Room /\ p = L0Planner /\ hold[p] = NoEntry
    /\ ranges' = [ranges EXCEPT ![0] = Append(@, Inf)]
    /\ tables' = tables \cup ids
    /\ hold' = [hold EXCEPT ![p] = [kind |-> "l0l0", tl |-> 0, nl |-> 0, tr |-> Inf, nr |-> NoRng, size |-> 0, ids |-> ids]]
    /\ Log([op |-> "AcquireL0", p |-> p, ids |-> ids])
    /\ UNCHANGED delSize

\* State.Delete
Release(p) ==
    LET e == hold[p] IN
    /\ Room /\ e # NoEntry
    /\ LET r1 == [ranges EXCEPT ![e.tl] = RemoveAll(@, e.tr)]
           second == IF DeleteAsIs THEN e.tl # e.nl /\ ~IsEmpty(e.nr)
                     ELSE ~IsEmpty(e.nr) /\ (e.tl # e.nl \/ e.nr # e.tr)
       IN ranges' = IF second THEN [r1 EXCEPT ![e.nl] = RemoveAll(@, e.nr)] ELSE r1
    /\ delSize' = [delSize EXCEPT ![e.tl] = @ - e.size]
    /\ tables' = tables \ e.ids
    /\ hold' = [hold EXCEPT ![p] = NoEntry]
    /\ Log([op |-> "Release", p |-> p])

\* planner-side reads (no state change; they appear in generated call sequences)
Probe == /\ MaxHist > 0 /\ Room
         /\ \/ \E lv \in Levels, x \in Ranges \cup {Inf} : Log([op |-> "Overlaps", level |-> lv, r |-> x])
            \/ \E i \in 1..NIds : Log([op |-> "HasTable", id |-> i])
            \/ Log([op |-> "HasRanges"])
            \/ \E lv \in Levels : Log([op |-> "DelSize", level |-> lv])
         /\ UNCHANGED <<ranges, tables, delSize, hold>>

Final == /\ MaxHist > 0 /\ Len(hist) = MaxHist - 1 /\ Log([op |-> "HasRanges"])
         /\ UNCHANGED <<ranges, tables, delSize, hold>>

Next == \/ Final
        \/ \E p \in {q \in Planners : hold[q] = NoEntry} : \E ids \in IdChoices : \E e \in Shaped : Acquire(p, e, ids)
        \/ \E p \in {q \in Planners : hold[q] = NoEntry} : \E ids \in IdChoices : AcquireL0(p, ids)
        \/ \E p \in Planners : Release(p)
        \/ Probe
Spec == Init /\ [][Next]_vars

\* ------------------------------------------------------------------ properties
Claims(e) == IF e = NoEntry THEN {} ELSE {<<e.tl, e.tr>>, <<e.nl, e.nr>>} \ {<<e.nl, NoRng>>}
Active == {p \in Planners : hold[p] # NoEntry}

\* Two running compactions never hold overlapping (level, range) reservations -- except the recorded
\* design deviation: the L0 -> L0 job reserves the whole of L0 without a check, so it may run next to an
\* L0 -> Lbase job that started earlier; those two are kept apart by table ids instead (the L0 -> L0
\* planner skips tables that are in flight), hence the witness demands disjoint table sets.
L0L0Witness(p, q) == (hold[p].kind = "l0l0" \/ hold[q].kind = "l0l0") /\ hold[p].ids \cap hold[q].ids = {}
MutualExclusion ==
    \A p, q \in Active : p # q =>
        \A c \in Claims(hold[p]), d \in Claims(hold[q]) :
            (c[1] = d[1] /\ Meet(c[2], d[2])) => (c[1] = 0 /\ L0L0Witness(p, q))
TableExclusion == \A p, q \in Active : p # q => hold[p].ids \cap hold[q].ids = {}

\* The table holds exactly what the running compactions reserved: nothing is left behind, nothing is missing.
Count(s, x) == Cardinality({i \in 1..Len(s) : s[i] = x})
Want(lv, x) == Cardinality({p \in Active : hold[p].tl = lv /\ hold[p].tr = x})
             + Cardinality({p \in Active : hold[p].nl = lv /\ hold[p].nr = x /\ hold[p].kind = "cas"})
ReleaseExact ==
    /\ \A lv \in Levels : \A x \in Ranges \cup {Inf, NoRng} : Count(ranges[lv], x) = Want(lv, x)
    /\ tables = UNION {hold[p].ids : p \in Active}
    /\ \A lv \in Levels : delSize[lv] = Cardinality({p \in Active : hold[p].tl = lv /\ hold[p].kind = "cas"})

\* ----------------------------------------------------------- sequence generation
EmitHist == (MaxHist > 0 /\ Len(hist) = MaxHist) => PrintT(<<"SCHED", ToJson(hist)>>)
=============================================================================
