---------------------------- MODULE KVRefTrace ----------------------------
(* Property layer for C01 / C02 / C08 / C12 (DESIGN.md 2.1): the reference model is a   *)
(* map from (column family, user key, version) to the entry most recently written       *)
(* there.  A trace recorded from the real engine is accepted iff every read reply       *)
(* equals what the reference map dictates.  Maintenance events (rotate, flush,          *)
(* compaction, value-log GC, close/reopen) are steps that leave the map unchanged:      *)
(* that *is* the property.  Nothing here mentions an engine-internal identifier.        *)
EXTENDS Integers, Sequences, FiniteSets, TLC, Json, IOUtils

Trace == ndJsonDeserialize(IOEnv.TRACE)

MAXV     == 1000000          \* trace encoding of the plain API's version (MaxUint64)
NOTFOUND == "NOTFOUND"
TOMB     == "TOMB"

VARIABLES l,        \* next trace line to explain
          ref       \* [<<cf, key, ver>> -> value token or TOMB]
vars == <<l, ref>>

EmptyMap == [x \in {} |-> TOMB]
Upd(m, key, val) == [x \in (DOMAIN m) \cup {key} |-> IF x = key THEN val ELSE m[x]]

Versions(cf, k) == {x[3] : x \in {y \in DOMAIN ref : y[1] = cf /\ y[2] = k}}
\* the entry a read at version v must see: the one at the greatest written version <= v
Visible(cf, k, v) ==
    LET vs == {w \in Versions(cf, k) : w <= v}
    IN IF vs = {} THEN [found |-> FALSE, ver |-> 0, val |-> NOTFOUND]
       ELSE LET top == CHOOSE w \in vs : \A u \in vs : u <= w
            IN [found |-> TRUE, ver |-> top, val |-> ref[<<cf, k, top>>]]

Init == l = 1 /\ ref = EmptyMap

ev == Trace[l]
\* A reply that contradicts the reference is reported (with the line and the expected reply) and the
\* trace continues, so one run reports every contradicting read of every concatenated trace.
Expect(got, want) == got = want \/ (got # want /\ PrintT(<<"MISMATCH", l, want>>))
IsEvent(name) == l <= Len(Trace) /\ ev.e = name /\ l' = l + 1

Reset == IsEvent("Reset") /\ ref' = EmptyMap

\* a write that reported an error must have had no effect (checked by later reads)
WriteAt(cf, k, v, val) == IF ev.ok THEN ref' = Upd(ref, <<cf, k, v>>, val) ELSE UNCHANGED ref

Set  == IsEvent("Set")  /\ WriteAt(ev.cf, ev.k, MAXV, ev.v)
Del  == IsEvent("Del")  /\ WriteAt(ev.cf, ev.k, MAXV, TOMB)
SetV == IsEvent("SetV") /\ WriteAt(ev.cf, ev.k, ev.ver, ev.v)
DelV == IsEvent("DelV") /\ WriteAt(ev.cf, ev.k, ev.ver, TOMB)

\* plain read: newest write wins; deleted => not found
Get == /\ IsEvent("Get")
       /\ LET vis == Visible(ev.cf, ev.k, MAXV)
          IN Expect(ev.r, IF vis.found /\ vis.val # TOMB THEN vis.val ELSE NOTFOUND)
       /\ UNCHANGED ref

\* versioned read: the stored entry (a tombstone is an entry) at the greatest version <= v
GetV == /\ IsEvent("GetV")
        /\ LET vis == Visible(ev.cf, ev.k, ev.ver)
           \* the entry is identified by its (unique) value / tombstone; the reply's Version field is not bound
           IN Expect(ev.r, IF vis.found THEN vis.val ELSE NOTFOUND)
        /\ UNCHANGED ref

\* maintenance never changes what reads return
Maint == IsEvent("Maint") /\ Expect(ev.ok, TRUE) /\ UNCHANGED ref

Next == Reset \/ Set \/ Del \/ SetV \/ DelV \/ Get \/ GetV \/ Maint
Spec == Init /\ [][Next]_vars

TraceAccepted ==
    LET d == TLCGet("stats").diameter
    IN PrintT(<<"TRACE_HW", d - 1, Len(Trace)>>) /\ d - 1 = Len(Trace)
=============================================================================
