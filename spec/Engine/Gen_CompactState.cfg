SPECIFICATION Spec
CONSTANTS
 NLevels = 3
 NBounds = 3
 Planners = {0,1,2}
 NIds = 8
 MaxHist = 30
 DeleteAsIs = FALSE
INVARIANT EmitHist
CHECK_DEADLOCK FALSE
