------------------------------- MODULE IterGen -------------------------------
(* Case generator for C06 (use M2 of DESIGN.md 2.2, "spec as enumerator"): TLC builds datasets    *)
(* (a few commits over a small pool of prefix-related keys, with deletes and expiries) and scan   *)
(* requests (option vector, bounds, prefix, seek target, own pending writes).  Mode "random":     *)
(* TLC -simulate draws every choice with RandomElement (one successor per step, reproducible      *)
(* with -seed).  Mode "all": every choice is an existential, so breadth-first search enumerates   *)
(* the whole space of the (small) constants.  The expected answers are NOT produced here: the     *)
(* recorded scans are judged by IterRefTrace.tla.                                                 *)
EXTENDS IterRef, TLC, Json

CONSTANTS Mode,        \* "random" | "all"
          Apis,        \* subset of {"txn", "db"}
          MaxCommits,  \* commits per dataset
          NScans,      \* scans per behaviour
          FixedPool,   \* mode "all": the key pool
          FixedKinds   \* mode "all": kinds written

VARIABLES hist, pool, api, nc, ns
vars == <<hist, pool, api, nc, ns>>

Bytes   == 0..2
Keys1   == {<<a>> : a \in Bytes}
Keys2   == {<<a, b>> : a, b \in Bytes}
Keys3   == {<<a, b, c>> : a, b, c \in Bytes}
AllKeys == Keys1 \cup Keys2 \cup Keys3

Pick(S) == RandomElement(S)
Coin(n) == Pick(1..n) = 1                  \* true with probability 1/n

\* constants of the exhaustive configuration (a cfg file cannot spell tuples)
SmallPool   == {<<1>>, <<1, 0>>}
SmallPrefix == {<<>>, <<1>>}
SmallLo     == {<<>>, <<1>>, <<1, 0>>}
SmallHi     == {<<>>, <<1, 0>>, <<1, 1>>}
SmallSeek   == {<<>>, <<1>>, <<1, 0>>, <<1, 1>>}
SmallPend   == {{}, {[k |-> <<1>>, kind |-> "put"]}, {[k |-> <<1>>, kind |-> "del"]}, {[k |-> <<1, 1>>, kind |-> "put"]}}
SmallKinds  == {"put", "del", "exp"}

Init == hist = <<>> /\ pool = {} /\ api = "" /\ nc = 0 /\ ns = 0

\* a pool of 3-4 keys, at least two of them prefix-related (2 of 3 behaviours), or 3-4 keys of one length
RandomPool ==
    IF Coin(3) THEN LET S == IF Coin(2) THEN Keys2 ELSE Keys3 IN {Pick(S), Pick(S), Pick(S), Pick(S)} ELSE
    LET b == Pick(Keys1 \cup Keys2)
        e == Append(b, Pick(Bytes))
        f == IF Len(e) < 3 /\ Coin(2) THEN Append(e, Pick(Bytes)) ELSE Append(b, Pick(Bytes))
    IN {b, e, f, Pick(AllKeys)}

Setup == /\ api = ""
         /\ api' \in Apis
         /\ pool' = IF Mode = "random" THEN RandomPool ELSE FixedPool
         /\ UNCHANGED <<hist, nc, ns>>

KindsFor(a) == IF a = "db" THEN {"put", "del"}
               ELSE IF Mode = "random" THEN {"put", "put", "del", "exp", "ttl"} ELSE FixedKinds
WriteSets(a, maxw) == UNION {[W -> KindsFor(a)] : W \in {X \in SUBSET pool : X # {} /\ Cardinality(X) <= maxw}}
AsWrites(f) == {[k |-> k, kind |-> f[k]] : k \in DOMAIN f}

Commit == /\ api # "" /\ ns = 0 /\ nc < MaxCommits
          /\ \E f \in (IF Mode = "random" THEN {Pick(WriteSets(api, 2))} ELSE WriteSets(api, 1)) :
                hist' = Append(hist, [op |-> "Commit", w |-> AsWrites(f)])
          /\ nc' = nc + 1
          /\ UNCHANGED <<pool, api, ns>>

\* bounds, prefixes and seek targets are taken from the pool, its prefixes, its extensions and the extremes
Probes == pool \cup {SubSeq(k, 1, Len(k) - 1) : k \in {x \in pool : Len(x) > 1}}
                    \cup {Append(k, b) : k \in {x \in pool : Len(x) < 3}, b \in {0, 2}}
                 \cup {<<0>>, <<2>>, <<2, 2, 2>>}
MaybeKey == IF Coin(2) THEN <<>> ELSE Pick(Probes)

PendSets(a) == IF a = "db" THEN {{}} ELSE SmallPend
RandomPend(a) == IF a = "db" \/ Coin(2) THEN {}
                 ELSE LET f == Pick(UNION {[W -> {"put", "put", "del", "exp", "ttl"}] :
                                       W \in {X \in SUBSET (pool \cup {Pick(AllKeys)}) : X # {} /\ Cardinality(X) <= 2}})
                      IN AsWrites(f)

MkOpt(a, rev, all, keyonly, iskey, prefix, lo, hi, seek) ==
    [rev |-> rev, all |-> (a = "txn" /\ (all \/ iskey)), keyonly |-> keyonly,
     iskey |-> (a = "txn" /\ iskey /\ prefix # <<>>), prefix |-> prefix, lo |-> lo, hi |-> hi, seek |-> seek]

RandomOpt(a) == MkOpt(a, Coin(2), Coin(3), Coin(3), Coin(6), MaybeKey, MaybeKey, MaybeKey, MaybeKey)
AllOpts(a) == {MkOpt(a, rev, all, FALSE, FALSE, prefix, lo, hi, seek) :
                  rev \in BOOLEAN, all \in (IF a = "txn" THEN BOOLEAN ELSE {FALSE}),
                  prefix \in SmallPrefix, lo \in SmallLo, hi \in SmallHi, seek \in SmallSeek}

Scan == /\ api # "" /\ nc >= 1 /\ ns < NScans
        /\ (Mode = "random" /\ ns = 0 /\ nc < MaxCommits) => Coin(2)   \* datasets of different sizes
        /\ \E o \in (IF Mode = "random" THEN {RandomOpt(api)} ELSE AllOpts(api)),
              p \in (IF Mode = "random" THEN {RandomPend(api)} ELSE PendSets(api)) :
                hist' = Append(hist, [op |-> "Scan", o |-> o, pend |-> p])
        /\ ns' = ns + 1
        /\ UNCHANGED <<pool, api, nc>>

Next == Setup \/ Commit \/ Scan
Spec == Init /\ [][Next]_vars

\* every complete behaviour is printed once
EmitHist == (ns = NScans) => PrintT(<<"SCHED", ToJson([api |-> api, steps |-> hist])>>)
=============================================================================
