------------------------------- MODULE Oracle -------------------------------
(* Implementation-shaped specification of NoKV's optimistic transactions (txn.go), for C03 / C04.  *)
(*                                                                                                 *)
(* State of the code that is modelled:                                                             *)
(*   nextTs       oracle.nextTxnTs (next commit timestamp)                                         *)
(*   committed    oracle.committedTxns: {[ts, fps]} write fingerprints of recent commits           *)
(*                (oracle.intentTable carries the same information: fingerprint -> latest ts)      *)
(*   lastCleanup  oracle.lastCleanupTs                                                             *)
(*   pendTx, lastIdx, rDone   the read mark (utils.WaterMark "PendingReads") abstracted: the      *)
(*                transactions whose readMark.Begin has no Done yet, the greatest index begun,     *)
(*                DoneUntil.  The commit mark (txnMark) is abstracted away: commits are            *)
(*                synchronous here (one goroutine drives all transactions), so a transaction       *)
(*                that begins has readTs = nextTs - 1 and every earlier commit is applied.         *)
(*   store        the versioned LSM contents {[k, ts, v]} (v = TOMB: tombstone)                       *)
(*   per transaction: st, rts (readTs), reads (fingerprints), wr (pendingWrites), cnt (count)      *)
(* One action per API call (each is one critical section in a single-goroutine history).           *)
(* Error exits (C04): ErrTxnTooBig from Set/Delete at the batch count limit, ErrBlockedWrites      *)
(* from Commit after Close (the commit timestamp is consumed and the fingerprints are recorded,    *)
(* nothing is written).                                                                            *)
(*                                                                                                 *)
(* Named deviation (DESIGN.md section 6), switchable through Dev:                                  *)
(*   "ReadMarkSkipsZero"  WaterMark.addIndex ignores index 0, so a transaction with readTs = 0     *)
(*                        (begun before the first commit of a fresh DB) was not tracked by the     *)
(*                        read mark and the conflict history it needs could be pruned.  Found by   *)
(*                        MC_Oracle_asis.cfg (Serializable violated), reproduced on the real DB,   *)
(*                        repaired in /repo by 5d6a096 (the oracle counts readers at timestamp 0   *)
(*                        and skips the cleanup while one is active, which is what Dev = {}        *)
(*                        models); the gating configurations therefore run with Dev = {}.          *)
(*   "LateReaderUnprotected"  a reader that begins at an index the read mark has already reached     *)
(*                        (an earlier transaction with the same read timestamp has finished, e.g. a  *)
(*                        View) is ignored by WaterMark.tryAdvance, which only looks above           *)
(*                        DoneUntil: the mark moves past the active reader and its conflict history   *)
(*                        is pruned.  Not foreseen by the first version of this abstraction; found   *)
(*                        by the binding (a TLC history with filler commits run on the real DB was    *)
(*                        rejected by TxnPropTrace), then added here (MC_Oracle_asis2.cfg, a reopened *)
(*                        DB, violates Serializable) and repaired in /repo by 8b8eb0d (the oracle bounds the       *)
(*                        pruning by the oldest active read timestamp = what Dev = {} models).        *)
(* Ghost variables (hidden from nothing; they are the refinement witnesses): clog (successful      *)
(* commits in order), rlog (values each transaction read from the store), cts, hist.              *)
EXTENDS Integers, Sequences, FiniteSets, TLC, Json

CONSTANTS Txns,       \* transaction ids
          ReadOnly,   \* subset of Txns begun with update = false
          Keys,       \* user keys
          FP,         \* [Keys -> fingerprints]; a non-injective FP models hash collisions
          MaxOps,     \* get/set/delete operations per transaction
          MaxCount,   \* Options.MaxBatchCount (0: unlimited)
          AllowClose, \* whether DB.Close may happen
          WithScan,   \* whether transactions iterate (Txn.NewIterator)
          Dev,        \* set of enabled deviations
          StartTs,    \* first commit timestamp: 1 = fresh DB; > 1 = a reopened DB (initCommitState(StartTs - 1))
          MaxHist     \* generation: history length at which a behaviour is printed (0: never)

VARIABLES nextTs, committed, lastCleanup, pendTx, lastIdx, rDone, store, closed, late,
          st, rts, reads, wr, cnt, nops,
          clog, rlog, cts, hist
vars == <<nextTs, committed, lastCleanup, pendTx, lastIdx, rDone, store, closed, late,
          st, rts, reads, wr, cnt, nops, clog, rlog, cts, hist>>
\* hist is the only variable that does not influence behaviour
view == <<nextTs, committed, lastCleanup, pendTx, lastIdx, rDone, store, closed, late,
          st, rts, reads, wr, cnt, nops, clog, rlog, cts>>

TOMB == <<>>          \* tombstone / nothing (a tuple, like every value)
\* the value a transaction writes: <<writer, operation index>> (tuples keep Txns symmetric; generation
\* replaces them by unique tokens anyway)
Val(t, n) == <<t, n>>
\* fingerprint maps for the cfg files (a cfg cannot spell a function)
FPid      == [k \in Keys |-> k]
FPcollide == [k \in Keys |-> 1]
Max(S) == CHOOSE x \in S : \A y \in S : y <= x
Min(S) == CHOOSE x \in S : \A y \in S : x <= y
EmptyF == [x \in {} |-> 0]
Upd(f, k, v) == [x \in (DOMAIN f) \cup {k} |-> IF x = k THEN v ELSE f[x]]

\* LSM read: the entry with the greatest version <= ts (TOMB = nothing / tombstone)
Vers(k, ts) == {e \in store : e.k = k /\ e.ts <= ts}
Lookup(k, ts) == IF Vers(k, ts) = {} THEN TOMB
                 ELSE (CHOOSE e \in Vers(k, ts) : \A f \in Vers(k, ts) : f.ts <= e.ts).v

\* reference: replay the successful commits in commit order
RECURSIVE AbsLookup(_, _, _)
AbsLookup(log, k, ts) ==
    IF log = <<>> THEN TOMB
    ELSE LET c == log[Len(log)]
         IN IF c.ts <= ts /\ k \in DOMAIN c.w THEN c.w[k] ELSE AbsLookup(SubSeq(log, 1, Len(log) - 1), k, ts)

Log(rec) == hist' = IF Len(hist) < MaxHist THEN Append(hist, rec) ELSE hist

Init == /\ nextTs = StartTs /\ committed = {} /\ lastCleanup = StartTs - 1 /\ pendTx = {}
        /\ lastIdx = StartTs - 1 /\ rDone = StartTs - 1
        /\ store = {} /\ closed = FALSE /\ late = {}
        /\ st = [t \in Txns |-> "idle"] /\ rts = [t \in Txns |-> 0] /\ reads = [t \in Txns |-> {}]
        /\ wr = [t \in Txns |-> EmptyF] /\ cnt = [t \in Txns |-> 1] /\ nops = [t \in Txns |-> 0]
        /\ clog = <<>> /\ rlog = [t \in Txns |-> {}] /\ cts = [t \in Txns |-> 0] /\ hist = <<>>

\* ---- read mark (utils.WaterMark) abstraction
Tracked(p, r) == {t \in p : /\ ~("ReadMarkSkipsZero" \in Dev /\ r[t] = 0)
                          /\ ~("LateReaderUnprotected" \in Dev /\ t \in late)}
DoneUntil(p, r, last, old) ==
    LET tr  == Tracked(p, r)
        now == IF tr = {} THEN last ELSE Min({r[t] : t \in tr}) - 1
    IN IF now > old THEN now ELSE old

IsUpdate(t) == t \notin ReadOnly

\* db.NewTransaction: readTs = nextTxnTs - 1 (all earlier commits applied), readMark.Begin(readTs)
Begin(t) ==
    /\ st[t] = "idle" /\ ~closed
    /\ LET r == nextTs - 1
           newLast == IF r > lastIdx THEN r ELSE lastIdx
       IN /\ rts' = [rts EXCEPT ![t] = r]
          /\ pendTx' = pendTx \cup {t}
          /\ lastIdx' = newLast
          /\ rDone' = DoneUntil(pendTx \cup {t}, [rts EXCEPT ![t] = r], newLast, rDone)
          \* the mark had already reached r (an earlier reader at r has finished): tryAdvance only looks above DoneUntil
          /\ late' = IF "LateReaderUnprotected" \in Dev /\ r <= rDone /\ r > 0 THEN late \cup {t} ELSE late
    /\ st' = [st EXCEPT ![t] = "active"]
    /\ Log([op |-> "Begin", t |-> t, upd |-> IsUpdate(t)])
    /\ UNCHANGED <<nextTs, committed, lastCleanup, store, closed, reads, wr, cnt, nops, clog, rlog, cts>>

\* Txn.Get: own pending write first (not tracked), else tracked read of the snapshot
Get(t, k) ==
    /\ st[t] = "active" /\ ~closed /\ nops[t] < MaxOps
    /\ nops' = [nops EXCEPT ![t] = @ + 1]
    /\ IF k \in DOMAIN wr[t] THEN UNCHANGED <<reads, rlog>>
       ELSE /\ reads' = [reads EXCEPT ![t] = IF IsUpdate(t) THEN @ \cup {FP[k]} ELSE @]
            /\ rlog' = [rlog EXCEPT ![t] = @ \cup {<<k, Lookup(k, rts[t])>>}]
    /\ Log([op |-> "Get", t |-> t, k |-> k])
    /\ UNCHANGED <<nextTs, committed, lastCleanup, pendTx, lastIdx, rDone, store, closed, late, st, rts, wr, cnt, clog, cts>>

\* Txn.NewIterator (forward, default options) run to the end: every yielded key -- own pending writes
\* included -- is added to the read set (TxnIterator.advance -> addReadKey); keys that are absent from the
\* snapshot are not tracked (no phantom protection, and the property does not ask for it)
Overlay(t, k) == IF k \in DOMAIN wr[t] THEN wr[t][k] ELSE Lookup(k, rts[t])
Scan(t) ==
    /\ WithScan /\ st[t] = "active" /\ ~closed /\ nops[t] < MaxOps
    /\ nops' = [nops EXCEPT ![t] = @ + 1]
    /\ LET live == {k \in Keys : Overlay(t, k) # TOMB}
       IN /\ reads' = [reads EXCEPT ![t] = IF IsUpdate(t) THEN @ \cup {FP[k] : k \in live} ELSE @]
          /\ rlog' = [rlog EXCEPT ![t] = @ \cup {<<k, Lookup(k, rts[t])>> : k \in live \ DOMAIN wr[t]}]
    /\ Log([op |-> "Scan", t |-> t])
    /\ UNCHANGED <<nextTs, committed, lastCleanup, pendTx, lastIdx, rDone, store, closed, late, st, rts, wr, cnt, clog, cts>>

\* Txn.Set / Txn.Delete through modify(): checkSize first
Write(t, k, del) ==
    /\ st[t] = "active" /\ IsUpdate(t) /\ nops[t] < MaxOps
    /\ nops' = [nops EXCEPT ![t] = @ + 1]
    /\ IF MaxCount > 0 /\ cnt[t] + 1 >= MaxCount
       THEN UNCHANGED <<wr, cnt>>                               \* ErrTxnTooBig: nothing recorded
       ELSE /\ wr' = [wr EXCEPT ![t] = Upd(@, k, IF del THEN TOMB ELSE Val(t, nops[t]))]
            /\ cnt' = [cnt EXCEPT ![t] = IF MaxCount > 0 THEN @ + 1 ELSE @]
    /\ Log([op |-> IF del THEN "Del" ELSE "Set", t |-> t, k |-> k])
    /\ UNCHANGED <<nextTs, committed, lastCleanup, pendTx, lastIdx, rDone, store, closed, late, st, rts, reads, clog, rlog, cts>>

\* oracle.doneRead + Discard bookkeeping
DoneRead(t) ==
    /\ pendTx' = pendTx \ {t}
    /\ rDone' = DoneUntil(pendTx \ {t}, rts, lastIdx, rDone)

\* a transaction that ended without committing leaves nothing behind (its ghosts are not needed any more)
Forget(t) == /\ rts' = [rts EXCEPT ![t] = 0] /\ reads' = [reads EXCEPT ![t] = {}]
             /\ wr' = [wr EXCEPT ![t] = EmptyF] /\ rlog' = [rlog EXCEPT ![t] = {}]

HasConflict(t) == \E c \in committed : c.ts > rts[t] /\ c.fps \cap reads[t] # {}

\* Txn.Commit / CommitWith
Commit(t) ==
    /\ st[t] = "active"
    /\ Log([op |-> "Commit", t |-> t, c |-> (DOMAIN wr[t] # {} /\ HasConflict(t))])   \* c: lets the generator favour histories with conflicts
    /\ st' = [st EXCEPT ![t] = "done"]
    /\ IF DOMAIN wr[t] = {} \/ HasConflict(t)
       THEN \* nothing to write (returns nil) or ErrConflict; Discard runs doneRead
            /\ DoneRead(t)
            /\ Forget(t)
            /\ UNCHANGED <<nextTs, committed, lastCleanup, store, clog, cts>>
       ELSE \* newCommitTs: doneRead, cleanupCommittedTransactions, take ts, record fingerprints
            /\ DoneRead(t)
            /\ LET until == DoneUntil(pendTx \ {t}, rts, lastIdx, rDone)
                   kept  == IF until = lastCleanup THEN committed ELSE {c \in committed : c.ts > until}
                   ts    == nextTs
               IN /\ lastCleanup' = until
                  /\ nextTs' = nextTs + 1
                  /\ committed' = kept \cup {[ts |-> ts, fps |-> {FP[k] : k \in DOMAIN wr[t]}]}
                  /\ IF closed
                     THEN UNCHANGED <<store, clog, cts>> /\ Forget(t)   \* sendToWriteCh: ErrBlockedWrites
                     ELSE /\ store' = store \cup {[k |-> k, ts |-> ts, v |-> wr[t][k]] : k \in DOMAIN wr[t]}
                          /\ clog' = Append(clog, [ts |-> ts, t |-> t, w |-> wr[t]])
                          /\ cts' = [cts EXCEPT ![t] = ts]
                          /\ reads' = [reads EXCEPT ![t] = {}] /\ wr' = [wr EXCEPT ![t] = EmptyF]
                          /\ UNCHANGED <<rts, rlog>>
    /\ UNCHANGED <<lastIdx, closed, late, cnt, nops>>

Discard(t) ==
    /\ st[t] = "active"
    /\ st' = [st EXCEPT ![t] = "done"]
    /\ DoneRead(t)
    /\ Forget(t)
    /\ Log([op |-> "Discard", t |-> t])
    /\ UNCHANGED <<nextTs, committed, lastCleanup, lastIdx, store, closed, late, cnt, nops, clog, cts>>

Close ==
    /\ AllowClose /\ ~closed
    /\ closed' = TRUE
    /\ Log([op |-> "Close"])
    /\ UNCHANGED <<nextTs, committed, lastCleanup, pendTx, lastIdx, rDone, store, late, st, rts, reads, wr, cnt, nops, clog, rlog, cts>>

Next == \/ \E t \in Txns : Begin(t) \/ Commit(t) \/ Discard(t) \/ Scan(t)
        \/ \E t \in Txns, k \in Keys : Get(t, k) \/ Write(t, k, FALSE) \/ Write(t, k, TRUE)
        \/ Close
Spec == Init /\ [][Next]_vars

\* ------------------------------------------------------------------ refinement (C03 / C04)
\* (i) snapshot reads: the store answers every (key, timestamp) like the replay of the commit log
StoreMatchesLog == \A k \in Keys, ts \in 0..nextTs : Lookup(k, ts) = AbsLookup(clog, k, ts)

\* (ii) serializable in commit order: what a committed read-write transaction read from the store
\* is what it would have read just before its own commit
Committed(t) == cts[t] > 0
SerialReads(t) == \A r \in rlog[t] : Lookup(r[1], cts[t] - 1) = r[2]
\* witness of the recorded deviation: only transactions begun at read timestamp 0 are exposed
Witness(t) == ("ReadMarkSkipsZero" \in Dev /\ rts[t] = 0) \/ ("LateReaderUnprotected" \in Dev /\ t \in late)
Serializable == \A t \in Txns : Committed(t) => SerialReads(t)
SerializableModuloKnown == \A t \in Txns : Committed(t) => (SerialReads(t) \/ Witness(t))

\* the commit rule itself: no other commit in (readTs, commitTs) wrote a key this transaction read
ReadKeys(t) == {r[1] : r \in rlog[t]}
RuleHolds(t) == ~\E i \in 1..Len(clog) : /\ clog[i].t # t /\ clog[i].ts > rts[t] /\ clog[i].ts < cts[t]
                                         /\ DOMAIN clog[i].w \cap ReadKeys(t) # {}
CommitRule == \A t \in Txns : Committed(t) => (RuleHolds(t) \/ Witness(t))

\* C04: one version per commit, versions strictly increasing, nothing in the store but successful commits
VersionsIncrease == \A i \in 1..Len(clog) : \A j \in 1..Len(clog) : i < j => clog[i].ts < clog[j].ts
NoTrace == store = UNION {{[k |-> k, ts |-> clog[i].ts, v |-> clog[i].w[k]] : k \in DOMAIN clog[i].w} : i \in 1..Len(clog)}
\* the code asserts ts >= lastCleanupTs in newCommitTs
AssertTs == nextTs > lastCleanup

Sym == Permutations(Txns) \cup Permutations(Keys)

\* ------------------------------------------------------------------ generation (M2)
AllDone == \A t \in Txns : st[t] = "done" \/ (closed /\ st[t] = "idle")
EmitHist == (MaxHist > 0 /\ (Len(hist) = MaxHist \/ AllDone)) => PrintT(<<"SCHED", ToJson(hist)>>)
=============================================================================
