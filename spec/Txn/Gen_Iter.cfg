SPECIFICATION Spec
CONSTANTS
 Mode = "random"
 Apis = {"txn", "db"}
 MaxCommits = 4
 NScans = 10
 FixedPool = {}
 FixedKinds = {}
INVARIANT EmitHist
CHECK_DEADLOCK FALSE
