SPECIFICATION Spec
CONSTANTS
 t1 = t1
 t2 = t2
 t3 = t3
 k1 = k1
 k2 = k2
 Txns = {t1,t2,t3}
 ReadOnly = {}
 Keys = {k1,k2}
 FP <- FPid
 MaxOps = 3
 MaxCount = 0
 WithScan = TRUE
 AllowClose = FALSE
 Dev = {}
 StartTs = 1
 MaxHist = 17
INVARIANT EmitHist
CHECK_DEADLOCK FALSE
