------------------------------- MODULE IterRef -------------------------------
(* Property layer for C06 (DESIGN.md section 5): Scan(snapshot, options) as a pure operator.      *)
(*                                                                                               *)
(* Keys are non-empty sequences over 0..2, standing for the bytes 0x00 < 0x61 < 0xFF, so that     *)
(* keys that are byte-prefixes of each other and keys containing 0x00 / 0xFF are in the model.    *)
(* The empty sequence means "option not set" (the code tests len(x) > 0).                         *)
(*                                                                                               *)
(* A dataset d is a set of committed entries [k, ver, kind, v] (one per (k, ver)); kind is        *)
(*   "put"  a value without expiry        "ttl"  a value whose expiry lies in the far future      *)
(*   "del"  a tombstone                   "exp"  a value whose expiry lies in the far past        *)
(* p is the set of the scanning transaction's own pending writes [k, kind, v] (one per key).      *)
(* A key is LIVE in the snapshot (d, snap, p) iff its newest visible entry -- the pending write   *)
(* if there is one, else the committed entry with the greatest version <= snap -- is a put/ttl.   *)
(* Nothing here mentions an internal identifier of the engine.                                    *)
EXTENDS Integers, Sequences, FiniteSets

PEND == -1            \* version reported for an own pending write (its version is not bound)

RECURSIVE KeyLess(_, _)
KeyLess(a, b) ==      \* strict byte-lexicographic order
    IF a = <<>> THEN b # <<>>
    ELSE IF b = <<>> THEN FALSE
    ELSE IF Head(a) # Head(b) THEN Head(a) < Head(b)
    ELSE KeyLess(Tail(a), Tail(b))
KeyLeq(a, b) == a = b \/ KeyLess(a, b)
IsPrefix(p, k) == Len(p) <= Len(k) /\ SubSeq(k, 1, Len(p)) = p

LiveKind(kind) == kind \in {"put", "ttl"}

KeysOf(d, p)           == {x.k : x \in d} \cup {x.k : x \in p}
VisibleVers(d, snap, k) == {x \in d : x.k = k /\ x.ver <= snap}
HasPend(p, k)          == \E x \in p : x.k = k
PendOf(p, k)           == CHOOSE x \in p : x.k = k
NewestCommitted(d, snap, k) ==
    CHOOSE x \in VisibleVers(d, snap, k) : \A y \in VisibleVers(d, snap, k) : y.ver <= x.ver

\* what a point read of k returns in the snapshot
Top(d, snap, p, k) ==
    IF HasPend(p, k) THEN [k |-> k, ver |-> PEND, kind |-> PendOf(p, k).kind, v |-> PendOf(p, k).v]
    ELSE IF VisibleVers(d, snap, k) = {} THEN [k |-> k, ver |-> 0, kind |-> "none", v |-> ""]
    ELSE NewestCommitted(d, snap, k)
KeyLive(d, snap, p, k) == LiveKind(Top(d, snap, p, k).kind)
PointRead(d, snap, p, k) == IF KeyLive(d, snap, p, k) THEN Top(d, snap, p, k).v ELSE "NOTFOUND"

(* o = [rev, all, iskey, prefix, lo, hi, seek]:                                                  *)
(*   lo inclusive lower bound, hi exclusive upper bound, prefix (iskey: the key itself, as        *)
(*   Txn.NewKeyIterator), seek = target of the initial Seek (forward: first key >= target,        *)
(*   reverse: first key <= target); unset = Rewind.  key-only does not change what is yielded.    *)
InRange(k, o) ==
    /\ o.lo = <<>> \/ KeyLeq(o.lo, k)
    /\ o.hi = <<>> \/ KeyLess(k, o.hi)
    /\ o.prefix = <<>> \/ (IF o.iskey THEN k = o.prefix ELSE IsPrefix(o.prefix, k))
    /\ o.seek = <<>> \/ (IF o.rev THEN KeyLeq(k, o.seek) ELSE KeyLeq(o.seek, k))

RECURSIVE SortKeys(_, _)
SortKeys(S, rev) ==
    IF S = {} THEN <<>>
    ELSE LET m == CHOOSE x \in S : \A y \in S : IF rev THEN KeyLeq(y, x) ELSE KeyLeq(x, y)
         IN <<m>> \o SortKeys(S \ {m}, rev)

Item(x) == [k |-> x.k, ver |-> x.ver, v |-> x.v]

\* each live key once, at its newest visible version
ScanLatest(d, snap, p, o) ==
    LET K  == {k \in KeysOf(d, p) : InRange(k, o) /\ KeyLive(d, snap, p, k)}
        ks == SortKeys(K, o.rev)
    IN [i \in 1..Len(ks) |-> Item(Top(d, snap, p, ks[i]))]

(* All-versions scans.  The property statement leaves two things open, so both readings are       *)
(* accepted (never demand more than the statement):                                               *)
(*   strict: older live versions of a key whose newest visible entry is a tombstone/expired are   *)
(*           suppressed (TRUE) or listed (FALSE, "all valid versions");                           *)
(*   hide:   a committed version equal to snap of a key that also has a pending write is          *)
(*           shadowed by the pending write (TRUE) or listed as well (FALSE).                      *)
VersItems(d, snap, p, k, strict, hide) ==
    IF strict /\ ~KeyLive(d, snap, p, k) THEN {}
    ELSE (IF HasPend(p, k) /\ LiveKind(PendOf(p, k).kind) THEN {[k |-> k, ver |-> PEND, v |-> PendOf(p, k).v]} ELSE {})
         \cup {Item(x) : x \in {y \in VisibleVers(d, snap, k) :
                                  LiveKind(y.kind) /\ ~(hide /\ HasPend(p, k) /\ y.ver = snap)}}

RECURSIVE VerSeq(_)
VerSeq(S) ==          \* canonical order inside one key: pending first, then versions descending
    IF S = {} THEN <<>>
    ELSE LET m == CHOOSE x \in S : \A y \in S : (x.ver = PEND) \/ (y.ver # PEND /\ y.ver <= x.ver)
         IN <<m>> \o VerSeq(S \ {m})

RECURSIVE Flatten(_)
Flatten(ss) == IF ss = <<>> THEN <<>> ELSE Head(ss) \o Flatten(Tail(ss))

ScanAll(d, snap, p, o, strict, hide) ==
    LET K  == {k \in KeysOf(d, p) : InRange(k, o) /\ VersItems(d, snap, p, k, strict, hide) # {}}
        ks == SortKeys(K, o.rev)
    IN Flatten([i \in 1..Len(ks) |-> VerSeq(VersItems(d, snap, p, ks[i], strict, hide))])

\* first element is the canonical answer (reported on mismatch)
Candidates(d, snap, p, o) ==
    IF o.all THEN <<ScanAll(d, snap, p, o, FALSE, TRUE), ScanAll(d, snap, p, o, FALSE, FALSE),
                    ScanAll(d, snap, p, o, TRUE, TRUE), ScanAll(d, snap, p, o, TRUE, FALSE)>>
    ELSE <<ScanLatest(d, snap, p, o)>>

(* Recorded deviation "RevOldest" (finding C06-reverse-oldest-version).  What txn_iterator.go does in   *)
(* a reverse scan without all-versions: the versions of one key arrive oldest first, the first live one *)
(* is yielded and the rest of the key is skipped -- so a key shows its OLDEST live visible version, and *)
(* a key whose newest visible entry is a tombstone reappears.  Used only to CLASSIFY rejected scans of  *)
(* the unrepaired code (IterRefTrace_asis.cfg); never part of the property.                             *)
LiveVers(d, snap, p, k, hide) ==
    {y \in VisibleVers(d, snap, k) : LiveKind(y.kind) /\ ~(hide /\ HasPend(p, k) /\ y.ver = snap)}
RevOldestItem(d, snap, p, k, hide) ==
    LET C == LiveVers(d, snap, p, k, hide)
    IN IF C # {} THEN Item(CHOOSE x \in C : \A y \in C : x.ver <= y.ver)
       ELSE [k |-> k, ver |-> PEND, v |-> PendOf(p, k).v]
ScanRevOldest(d, snap, p, o, hide) ==
    LET K  == {k \in KeysOf(d, p) : InRange(k, o) /\ (LiveVers(d, snap, p, k, hide) # {}
                                                        \/ (HasPend(p, k) /\ LiveKind(PendOf(p, k).kind)))}
        ks == SortKeys(K, o.rev)
    IN [i \in 1..Len(ks) |-> RevOldestItem(d, snap, p, ks[i], hide)]
DevCandidates(dev, d, snap, p, o) ==
    IF "RevOldest" \in dev /\ o.rev /\ ~o.all
    THEN <<ScanRevOldest(d, snap, p, o, TRUE), ScanRevOldest(d, snap, p, o, FALSE)>> ELSE <<>>

RECURSIVE Collapse(_)
Collapse(s) ==        \* drop consecutive repetitions
    IF Len(s) <= 1 THEN s
    ELSE IF s[1] = s[2] THEN Collapse(Tail(s)) ELSE <<s[1]>> \o Collapse(Tail(s))

KeySeq(s) == [i \in 1..Len(s) |-> s[i].k]
Range(s)  == {s[i] : i \in 1..Len(s)}

(* got matches want: the same items, the keys in the same (strictly monotone) order with all     *)
(* versions of one key adjacent; the order of the versions inside one key is not demanded.        *)
Match(got, want) ==
    /\ Len(got) = Len(want)
    /\ Range(got) = Range(want)
    /\ Collapse(KeySeq(got)) = Collapse(KeySeq(want))

Accepts(got, c) == \E i \in 1..Len(c) : Match(got, c[i])
=============================================================================
