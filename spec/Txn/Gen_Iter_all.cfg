SPECIFICATION Spec
CONSTANTS
 Mode = "all"
 Apis = {"txn"}
 MaxCommits = 2
 NScans = 1
 FixedPool <- SmallPool
 FixedKinds <- SmallKinds
INVARIANT EmitHist
CHECK_DEADLOCK FALSE
