SPECIFICATION Spec
CONSTANT Dev = {}
POSTCONDITION TraceAccepted
CHECK_DEADLOCK FALSE
