SPECIFICATION Spec
CONSTANT Dev = {"RevOldest"}
POSTCONDITION TraceAccepted
CHECK_DEADLOCK FALSE
