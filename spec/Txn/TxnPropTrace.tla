---------------------------- MODULE TxnPropTrace ----------------------------
(* Property layer for C03 / C04 (DESIGN.md 2.1) as a trace specification.  Reference model: the   *)
(* sequence of successful commits, each a write set under ONE version.  A trace recorded from the *)
(* real DB (harness/cmd/txn: several transactions driven by one goroutine) is accepted iff         *)
(*  C03 (i)   every Get returns the transaction's own pending write, else the newest commit with   *)
(*            version <= its read timestamp (a tombstone / nothing reads as NOTFOUND); a Scan      *)
(*            (Txn.NewIterator run to the end) yields exactly the live keys of that view;          *)
(*      (ii)  Commit answers "ok" for a read-write transaction only if no other commit with a      *)
(*            version above its read timestamp wrote a key it read ("conflict" is always           *)
(*            acceptable: fingerprint collisions may only add conflicts);                          *)
(*  C04 (iii) the entries a successful commit added to the store are exactly its write set, under  *)
(*            one version, greater than every earlier commit version and every read timestamp      *)
(*            handed out so far; a transaction begun afterwards has a read timestamp >= it;        *)
(*      (iv)  a Commit / CommitWith that reports an error, a failed Set / Delete and a Discard      *)
(*            add nothing: later reads are bound to the reference by (i), and a Dump of all        *)
(*            stored versions contains only entries written by successful commits (and the         *)
(*            newest one of every key).                                                            *)
(* No internal identifier of the engine appears: only API replies, Txn.ReadTs and stored versions. *)
EXTENDS Integers, Sequences, FiniteSets, TLC, Json, IOUtils

Trace == ndJsonDeserialize(IOEnv.TRACE)

NOTFOUND == "NOTFOUND"
TOMB     == "TOMB"

VARIABLES l,        \* next trace line to explain
          clog,     \* successful commits in order: <<[ver, w]>>, w: [key -> value token | TOMB]
          tx,       \* active transactions: [t -> [rts, upd, reads, w]]
          maxrts,   \* greatest read timestamp handed out
          cc        \* free-running phase: the Commit calls that have returned, {[ok, w]}
vars == <<l, clog, tx, maxrts, cc>>

EmptyF == [x \in {} |-> TOMB]
Upd(f, k, v) == [x \in (DOMAIN f) \cup {k} |-> IF x = k THEN v ELSE f[x]]
Without(f, k) == [x \in (DOMAIN f) \ {k} |-> f[x]]
MaxOf(S, d) == IF S = {} THEN d ELSE CHOOSE x \in S : \A y \in S : y <= x

MaxVer == MaxOf({clog[i].ver : i \in 1..Len(clog)}, 0)
\* the newest commit with version <= ts that wrote k
Writers(k, ts) == {i \in 1..Len(clog) : clog[i].ver <= ts /\ k \in DOMAIN clog[i].w}
Visible(k, ts) ==
    IF Writers(k, ts) = {} THEN NOTFOUND
    ELSE LET i == CHOOSE i \in Writers(k, ts) : \A j \in Writers(k, ts) : clog[j].ver <= clog[i].ver
         IN IF clog[i].w[k] = TOMB THEN NOTFOUND ELSE clog[i].w[k]

Init == l = 1 /\ clog = <<>> /\ tx = EmptyF /\ maxrts = 0 /\ cc = {}

ev == Trace[l]
Expect(got, want) == got = want \/ (got # want /\ PrintT(<<"MISMATCH", l, want>>))
Require(cond, msg) == cond \/ (~cond /\ PrintT(<<"MISMATCH", l, msg>>))
IsEvent(name) == l <= Len(Trace) /\ ev.e = name /\ l' = l + 1

Reset == IsEvent("Reset") /\ clog' = <<>> /\ tx' = EmptyF /\ maxrts' = 0 /\ cc' = {}

Begin == /\ IsEvent("Begin") /\ ev.t \notin DOMAIN tx
         /\ Require(ev.rts >= MaxVer, "read timestamp >= every committed version")
         /\ tx' = Upd(tx, ev.t, [rts |-> ev.rts, upd |-> ev.upd, reads |-> {}, w |-> EmptyF])
         /\ maxrts' = IF ev.rts > maxrts THEN ev.rts ELSE maxrts
         /\ UNCHANGED clog

Get == /\ IsEvent("Get") /\ ev.t \in DOMAIN tx
       /\ LET x == tx[ev.t]
              own == ev.k \in DOMAIN x.w
          IN /\ Expect(ev.r, IF own THEN (IF x.w[ev.k] = TOMB THEN NOTFOUND ELSE x.w[ev.k]) ELSE Visible(ev.k, x.rts))
             /\ tx' = IF own \/ ~x.upd THEN tx ELSE Upd(tx, ev.t, [x EXCEPT !.reads = @ \cup {ev.k}])
       /\ UNCHANGED <<clog, maxrts>>

\* a full forward iteration inside the transaction: exactly the live keys of (snapshot overlaid with own
\* pending writes) with their values (the ORDER is C06's business); the keys it yielded count as read
KnownKeys(x) == (DOMAIN x.w) \cup UNION {DOMAIN clog[i].w : i \in 1..Len(clog)}
Seen(x, k) == IF k \in DOMAIN x.w THEN (IF x.w[k] = TOMB THEN NOTFOUND ELSE x.w[k]) ELSE Visible(k, x.rts)
Scan == /\ IsEvent("Scan") /\ ev.t \in DOMAIN tx
        /\ LET x    == tx[ev.t]
               want == {[k |-> k, v |-> Seen(x, k)] : k \in {y \in KnownKeys(x) : Seen(x, y) # NOTFOUND}}
               got  == {[k |-> ev.res[i].k, v |-> ev.res[i].v] : i \in 1..Len(ev.res)}
           IN /\ Require(got = want /\ Len(ev.res) = Cardinality(want), ToJson(want))
              /\ tx' = IF ~x.upd THEN tx
                       ELSE Upd(tx, ev.t, [x EXCEPT !.reads = @ \cup ({r.k : r \in got} \ DOMAIN x.w)])
        /\ UNCHANGED <<clog, maxrts>>

\* a write that reported an error is not part of the transaction
Write(val) == /\ ev.t \in DOMAIN tx
              /\ tx' = IF ev.ok THEN Upd(tx, ev.t, [tx[ev.t] EXCEPT !.w = Upd(@, ev.k, val)]) ELSE tx
              /\ UNCHANGED <<clog, maxrts>>
Set == IsEvent("Set") /\ Write(ev.v)
Del == IsEvent("Del") /\ Write(TOMB)

ConflictDue(x) == \E i \in 1..Len(clog) : clog[i].ver > x.rts /\ DOMAIN clog[i].w \cap x.reads # {}
SeqSet(s) == {s[i] : i \in 1..Len(s)}

Commit ==
    /\ IsEvent("Commit") /\ ev.t \in DOMAIN tx
    /\ LET x == tx[ev.t]
       IN IF ev.r = "ok" /\ DOMAIN x.w # {}
          THEN /\ Require(~ConflictDue(x), "conflict")
               /\ Require(Len(ev.vers) = 1, "all writes stored under ONE version")
               /\ Require(\A i \in 1..Len(ev.vers) : ev.vers[i] > MaxVer /\ ev.vers[i] > maxrts,
                          "commit version greater than every earlier commit version and read timestamp")
               /\ Require(SeqSet(ev.nk) = DOMAIN x.w, "the stored entries are exactly the write set")
               /\ clog' = Append(clog, [ver |-> MaxOf(SeqSet(ev.vers), MaxVer + 1), w |-> x.w])
          ELSE \* nothing to write, or an error reply: nothing may have been stored
               /\ Require(Len(ev.vers) = 0, "a commit that wrote nothing / failed stores nothing")
               /\ clog' = clog
    /\ tx' = Without(tx, ev.t)
    /\ UNCHANGED maxrts

Discard == /\ IsEvent("Discard")
           /\ tx' = IF ev.t \in DOMAIN tx THEN Without(tx, ev.t) ELSE tx
           /\ UNCHANGED <<clog, maxrts>>

\* rotate / flush / compaction / close / reopen never change what transactions see
Maint == IsEvent("Maint") /\ Require(ev.ok, "maintenance succeeds") /\ UNCHANGED <<clog, tx, maxrts>>

\* every stored version was written by a successful commit; the newest version of every key is stored
Stored == {[k |-> ev.ents[i].k, ver |-> ev.ents[i].ver, v |-> ev.ents[i].v] : i \in 1..Len(ev.ents)}
Written == UNION {{[k |-> k, ver |-> clog[i].ver, v |-> clog[i].w[k]] : k \in DOMAIN clog[i].w} : i \in 1..Len(clog)}
Newest == {e \in Written : \A f \in Written : f.k = e.k => f.ver <= e.ver}
Dump == /\ IsEvent("Dump")
        /\ Require(Stored \subseteq Written, "only entries written by successful commits are stored")
        /\ Require(Newest \subseteq Stored, "the newest committed version of every key is stored")
        /\ UNCHANGED <<clog, tx, maxrts>>

(* Free-running phase (several goroutines commit at the same moment, possibly with an injected I/O     *)
(* failure): only call/return is known, so every commit is judged on its own against the store.        *)
(* CCommit: one Commit / CommitWith has returned (blind writes with unique value tokens).              *)
(* CDump:   every stored version.  C04: an acknowledged commit has ALL its writes stored under ONE     *)
(* version, above every version committed before the phase and different from the other commits';      *)
(* a commit that reported an error has NONE of its writes stored.                                      *)
CCommit == /\ IsEvent("CCommit")
           /\ cc' = cc \cup {[t |-> ev.t, ok |-> (ev.r = "ok"),
                               w |-> {[k |-> ev.w[i].k, v |-> ev.w[i].v] : i \in 1..Len(ev.w)}]}
VersOf(c) == {e.ver : e \in {x \in Stored : \E y \in c.w : y.k = x.k /\ y.v = x.v}}
CDump == /\ IsEvent("CDump")
         /\ \A c \in cc :
               IF c.ok
               THEN /\ Require(\A y \in c.w : \E x \in Stored : x.k = y.k /\ x.v = y.v,
                               "every write of an acknowledged commit is stored")
                    /\ Require(Cardinality(VersOf(c)) <= 1 /\ \A v \in VersOf(c) : v > MaxVer,
                               "one version per commit, above every earlier commit version")
                    /\ Require(\A d \in cc : (d.ok /\ d # c) => VersOf(d) \cap VersOf(c) = {},
                               "two commits never share a version")
               ELSE Require(VersOf(c) = {}, "no write of a commit that reported an error is stored")
         /\ cc' = {}

Sequential == Begin \/ Get \/ Scan \/ Set \/ Del \/ Commit \/ Discard \/ Maint \/ Dump
Next == \/ Reset
        \/ Sequential /\ UNCHANGED cc
        \/ (CCommit \/ CDump) /\ UNCHANGED <<clog, tx, maxrts>>
Spec == Init /\ [][Next]_vars

TraceAccepted ==
    LET d == TLCGet("stats").diameter
    IN PrintT(<<"TRACE_HW", d - 1, Len(Trace)>>) /\ d - 1 = Len(Trace)
=============================================================================
