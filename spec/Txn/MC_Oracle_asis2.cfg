SPECIFICATION Spec
CONSTANTS
 t1 = t1
 t2 = t2
 t3 = t3
 Txns = {t1,t2,t3}
 ReadOnly = {}
 Keys = {k1,k2}
 k1 = k1
 k2 = k2
 FP <- FPid
 MaxOps = 2
 MaxCount = 0
 WithScan = TRUE
 AllowClose = FALSE
 Dev = {"LateReaderUnprotected"}
 StartTs = 2
 MaxHist = 0
VIEW view
SYMMETRY Sym
INVARIANT StoreMatchesLog
INVARIANT Serializable
INVARIANT CommitRule
INVARIANT VersionsIncrease
INVARIANT NoTrace
INVARIANT AssertTs
CHECK_DEADLOCK FALSE
