---------------------------- MODULE IterRefTrace ----------------------------
(* Trace specification for C06: a trace recorded from the real code (harness/cmd/iter) is         *)
(* accepted iff every recorded scan equals IterRef!Scan of the reference snapshot under the       *)
(* recorded options, and every yielded value equals the recorded point read of the same key.      *)
(* Events: Reset | W (one committed write with the version the engine gave it) | Maint | Scan.    *)
EXTENDS IterRef, TLC, Json, IOUtils

CONSTANT Dev      \* {} for verdicts; {"RevOldest"} only to classify rejections against recorded findings

Trace == ndJsonDeserialize(IOEnv.TRACE)

VARIABLES l,        \* next trace line to explain
          data      \* set of [k, ver, kind, v]
vars == <<l, data>>

Init == l = 1 /\ data = {}

ev == Trace[l]
IsEvent(name) == l <= Len(Trace) /\ ev.e = name /\ l' = l + 1

Reset == IsEvent("Reset") /\ data' = {}

\* a later write of the same (key, version) replaces the earlier one (plain API: one version)
W == /\ IsEvent("W")
     /\ data' = {x \in data : ~(x.k = ev.k /\ x.ver = ev.ver)}
                 \cup {[k |-> ev.k, ver |-> ev.ver, kind |-> ev.kind, v |-> ev.v]}

Maint == IsEvent("Maint") /\ (ev.ok \/ (~ev.ok /\ PrintT(<<"MISMATCH", l, "maintenance failed">>))) /\ UNCHANGED data

PendSet == {[k |-> ev.pend[i].k, kind |-> ev.pend[i].kind, v |-> ev.pend[i].v] : i \in 1..Len(ev.pend)}
\* an item carrying an own pending write is recognised by its (unique) value token
Norm(x, p) == IF \E y \in p : y.k = x.k /\ y.v = x.v /\ LiveKind(y.kind)
              THEN [k |-> x.k, ver |-> PEND, v |-> x.v] ELSE [k |-> x.k, ver |-> x.ver, v |-> x.v]
Opt == [rev |-> ev.o.rev, all |-> ev.o.all, iskey |-> ev.o.iskey, prefix |-> ev.o.prefix,
        lo |-> ev.o.lo, hi |-> ev.o.hi, seek |-> ev.o.seek]

Scan == /\ IsEvent("Scan")
        /\ LET p     == PendSet
               got   == [i \in 1..Len(ev.res) |-> Norm(ev.res[i], p)]
               c     == Candidates(data, ev.snap, p, Opt)
               canon == Accepts(got, c)
               dev   == Accepts(got, DevCandidates(Dev, data, ev.snap, p, Opt))
           IN /\ \/ canon
                 \/ dev
                 \/ /\ ~canon /\ ~dev
                    /\ PrintT(<<"MISMATCH", l, ToJson(c[1])>>)
              \* a scan explained only by a recorded deviation necessarily disagrees with point reads
              /\ (canon \/ ~dev) =>
                    \A i \in 1..Len(ev.res) :
                       \/ ev.res[i].v = ev.res[i].pv
                       \/ /\ ev.res[i].v # ev.res[i].pv
                          /\ PrintT(<<"MISMATCH", l, "value differs from point read: " \o ev.res[i].pv>>)
        /\ UNCHANGED data

Next == Reset \/ W \/ Maint \/ Scan
Spec == Init /\ [][Next]_vars

TraceAccepted ==
    LET d == TLCGet("stats").diameter
    IN PrintT(<<"TRACE_HW", d - 1, Len(Trace)>>) /\ d - 1 = Len(Trace)
=============================================================================
