----------------------------- MODULE KeyOrder -----------------------------
(* Engine-independent order of NoKV internal keys (shared by MemIndex, SST, Codec).        *)
(* An internal key is a record [cf, k, ver]: column family id, user key as a sequence of   *)
(* byte values 0..255, version.  Order: cf ascending, user key ascending byte-             *)
(* lexicographically with a proper prefix first, version DESCENDING.                       *)
(* The second half states the byte layout of kv.InternalKey (marker FF 'C' 'F' cf, user    *)
(* key, 8-byte big-endian MaxUint64-ver) and the two ways code orders encoded keys:        *)
(* utils.CompareKeys (base bytes, then the 8 trailing bytes) and plain radix order on the  *)
(* raw bytes with zero padding (what a radix tree that branches on utils/art.go:keyByte    *)
(* sees).                                                                                   *)
EXTENDS Integers, Sequences

MAXV == 1000000      \* spec/trace token for version 2^64-1 (drivers map it to math.MaxUint64)

Min2(a, b) == IF a < b THEN a ELSE b
Max2(a, b) == IF a < b THEN b ELSE a

\* byte-lexicographic, a proper prefix sorts first
BytesLess(a, b) ==
    \E i \in 1..(Min2(Len(a), Len(b)) + 1) :
        /\ \A j \in 1..(i - 1) : a[j] = b[j]
        /\ \/ (i > Len(a) /\ i <= Len(b))
           \/ (i <= Len(a) /\ i <= Len(b) /\ a[i] < b[i])

IsProperPrefix(a, b) == Len(a) < Len(b) /\ \A j \in 1..Len(a) : a[j] = b[j]

KeyLess(x, y) ==
    \/ x.cf < y.cf
    \/ /\ x.cf = y.cf
       /\ \/ BytesLess(x.k, y.k)
          \/ (x.k = y.k /\ x.ver > y.ver)

KeyLeq(x, y) == ~KeyLess(y, x)
SameUser(x, y) == x.cf = y.cf /\ x.k = y.k

\* two user keys of one column family, one a proper byte-prefix of the other
PrefixPair(x, y) == x.cf = y.cf /\ (IsProperPrefix(x.k, y.k) \/ IsProperPrefix(y.k, x.k))

----------------------------------------------------------------------------
\* binary search in a sequence of keys sorted by KeyLess (the declarative definitions they must agree
\* with are checked by TLC in MemIndex.tla / SST.tla over small universes)
RECURSIVE LowerIdx(_, _, _, _), UpperIdx(_, _, _, _)
LowerIdx(s, x, lo, hi) == IF lo >= hi THEN lo
                          ELSE LET mid == (lo + hi) \div 2
                               IN IF KeyLess(s[mid], x) THEN LowerIdx(s, x, mid + 1, hi) ELSE LowerIdx(s, x, lo, mid)
UpperIdx(s, x, lo, hi) == IF lo >= hi THEN lo
                          ELSE LET mid == (lo + hi) \div 2
                               IN IF KeyLess(x, s[mid]) THEN UpperIdx(s, x, lo, mid) ELSE UpperIdx(s, x, mid + 1, hi)
\* index of the first element >= x (Len(s)+1 if none) / of the first element > x
LowerBound(s, x) == LowerIdx(s, x, 1, Len(s) + 1)
UpperBound(s, x) == UpperIdx(s, x, 1, Len(s) + 1)
\* s with x inserted at its place (s unchanged if x is present)
SortedInsert(s, x) == LET i == LowerBound(s, x)
                      IN IF i <= Len(s) /\ s[i] = x THEN s
                         ELSE SubSeq(s, 1, i - 1) \o <<x>> \o SubSeq(s, i, Len(s))
\* what an ascending iterator yields after Seek(t): elements >= t in order (at most lim when lim > 0)
FromAsc(s, t, lim) == LET i == LowerBound(s, t)
                          n == Len(s) - i + 1
                          c == IF lim > 0 /\ n > lim THEN lim ELSE n
                      IN [j \in 1..c |-> s[i + j - 1]]
\* descending iterator after Seek(t): elements <= t in reverse order
FromDesc(s, t, lim) == LET i == UpperBound(s, t) - 1
                           c == IF lim > 0 /\ i > lim THEN lim ELSE i
                       IN [j \in 1..c |-> s[i - j + 1]]

----------------------------------------------------------------------------
\* byte layout (versions 0..255 and MAXV are enough for the order arguments)
InvTs(v) == IF v = MAXV THEN [i \in 1..8 |-> 0]
            ELSE [i \in 1..8 |-> IF i < 8 THEN 255 ELSE 255 - v]
Enc(x) == <<255, 67, 70, x.cf>> \o x.k \o InvTs(x.ver)

Base(b) == SubSeq(b, 1, Len(b) - 8)
Ts(b)   == SubSeq(b, Len(b) - 7, Len(b))
\* utils.CompareKeys(a, b) < 0
CompareKeysLess(a, b) == BytesLess(Base(a), Base(b)) \/ (Base(a) = Base(b) /\ BytesLess(Ts(a), Ts(b)))

Pad(b, i) == IF i <= Len(b) THEN b[i] ELSE 0
\* order in which a byte-wise radix tree with zero padding (art.go:keyByte) visits leaves
RadixLess(a, b) ==
    \E i \in 1..Max2(Len(a), Len(b)) :
        /\ \A j \in 1..(i - 1) : Pad(a, j) = Pad(b, j)
        /\ Pad(a, i) < Pad(b, i)
\* radix navigation is consistent with the internal-key order for this pair
RadixAgrees(x, y) == (RadixLess(Enc(x), Enc(y)) <=> KeyLess(x, y)) /\ (RadixLess(Enc(y), Enc(x)) <=> KeyLess(y, x))
=============================================================================
