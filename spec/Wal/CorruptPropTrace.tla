-------------------------- MODULE CorruptPropTrace --------------------------
(* Property layer for C14: after flipping one bit of a WAL segment, a value-log file or an   *)
(* SST file, whatever the decoders hand to a caller is byte-identical to something that was  *)
(* written.  A Build event lists the original records/entries in order (orig) and, for       *)
(* point reads, the original value per pointer/key (want).  A FlipRange event stands for one *)
(* or more flipped bits with the same observation:                                           *)
(*   got    the records/entries served by Replay / Iterate / a table scan, in order (also    *)
(*          those handed out before an error was reported) -- must be a subsequence of orig  *)
(*          (the corrupted record and any suffix may be missing; nothing new may appear);    *)
(*   reads  per original pointer/key: an error, "not found", or exactly the original value.  *)
(* Records are identified by type/key, length and SHA-1 of the payload.                      *)
EXTENDS Integers, Sequences, FiniteSets, TLC, Json, IOUtils

Trace == ndJsonDeserialize(IOEnv.TRACE)

VARIABLES l, orig, want
vars == <<l, orig, want>>

ev == Trace[l]
IsEvent(name) == l <= Len(Trace) /\ ev.e = name /\ l' = l + 1
Expect(got, wanted, what) == got = wanted \/ (got # wanted /\ PrintT(<<"MISMATCH", l, what>>))

\* greedy matching: a is a subsequence of b
RECURSIVE SubSeqFrom(_, _, _, _)
SubSeqFrom(a, i, b, j) ==
    IF i > Len(a) THEN TRUE
    ELSE IF j > Len(b) THEN FALSE
    ELSE IF a[i] = b[j] THEN SubSeqFrom(a, i + 1, b, j + 1)
    ELSE SubSeqFrom(a, i, b, j + 1)
IsSubSeq(a, b) == SubSeqFrom(a, 1, b, 1)

ReadsOK(reads) == /\ Len(reads) <= Len(want)
                  /\ \A i \in 1..Len(reads) : reads[i] \in {"ERR", "NOTFOUND", want[i]}

Init == l = 1 /\ orig = <<>> /\ want = <<>>
Reset == IsEvent("Reset") /\ orig' = <<>> /\ want' = <<>>
Build == IsEvent("Build") /\ orig' = ev.orig /\ want' = ev.want
FlipRange ==
    /\ IsEvent("FlipRange")
    /\ Expect(IsSubSeq(ev.got, orig), TRUE, "served records are a subsequence of the written ones")
    /\ Expect(ReadsOK(ev.reads), TRUE, "every read is an error, not found, or the written value")
    /\ UNCHANGED <<orig, want>>

Next == Reset \/ Build \/ FlipRange
Spec == Init /\ [][Next]_vars

TraceAccepted ==
    LET d == TLCGet("stats").diameter
    IN PrintT(<<"TRACE_HW", d - 1, Len(Trace)>>) /\ d - 1 = Len(Trace)
=============================================================================
