---------------------------- MODULE WalPropTrace ----------------------------
(* Property layer for C13.  A trace recorded from a real wal.Manager is accepted iff, for  *)
(* every cut offset n of the final segment,                                               *)
(*   - VerifyDir, Open and Replay succeed and Replay yields exactly the records of the     *)
(*     earlier segments followed by the records of the final segment that were completely *)
(*     written before byte n, in order, with their types (Wal.tla: CompleteBefore),        *)
(*   - after reopening, appending two records and replaying, exactly those records         *)
(*     followed by the two new ones come back.                                             *)
(* Records are identified by "type:length:hash of payload"; a record's extent is the file  *)
(* size measured after it was appended and synced.  A CutRange event stands for every      *)
(* offset in from..to (the driver merges adjacent offsets with identical observations);    *)
(* CompleteBefore is monotone in n, so checking both ends checks every offset between.     *)
EXTENDS Integers, Sequences, FiniteSets, TLC, Json, IOUtils

Trace == ndJsonDeserialize(IOEnv.TRACE)

VARIABLES l,      \* next trace line to explain
          segs    \* segments, oldest first: sequences of [rec, end]
vars == <<l, segs>>

ev == Trace[l]
IsEvent(name) == l <= Len(Trace) /\ ev.e = name /\ l' = l + 1
Expect(got, want, what) == got = want \/ (got # want /\ PrintT(<<"MISMATCH", l, what>>))

RECURSIVE Flat(_)
Flat(ss) == IF ss = <<>> THEN <<>> ELSE [i \in 1..Len(Head(ss)) |-> Head(ss)[i].rec] \o Flat(Tail(ss))
Final   == segs[Len(segs)]
Earlier == Flat(SubSeq(segs, 1, Len(segs) - 1))
CompleteBefore(n) ==
    LET idx == {i \in 1..Len(Final) : Final[i].end <= n}
    IN [i \in 1..Cardinality(idx) |-> Final[i].rec]       \* ends are increasing: idx is a prefix
Expected(n) == Earlier \o CompleteBefore(n)

Init == l = 1 /\ segs = <<<<>>>>

Reset == IsEvent("Reset") /\ segs' = <<<<>>>>

\* a record was appended (and synced) to segment ev.seg; a size-triggered rotation shows as a new segment
AppendEv == /\ IsEvent("Append")
          /\ LET r == [rec |-> ev.rec, end |-> ev.end]
             IN segs' = IF ev.seg > Len(segs) THEN Append(segs, <<r>>)
                        ELSE [segs EXCEPT ![ev.seg] = Append(@, r)]
RotateEv == IsEvent("Rotate") /\ segs' = IF ev.seg > Len(segs) THEN Append(segs, <<>>) ELSE segs
FinalEv == IsEvent("Final") /\ Expect(ev.seg, Len(segs), "final segment is the newest one") /\ UNCHANGED segs

CutRange ==
    /\ IsEvent("CutRange")
    /\ Expect(ev.vok /\ ev.ook /\ ev.ok1, TRUE, "VerifyDir, Open and Replay succeed after a cut")
    /\ Expect(ev.recs1, Expected(ev.from), "replay = records complete before the cut (from)")
    /\ Expect(ev.recs1, Expected(ev.to), "replay = records complete before the cut (to)")
    /\ Expect(ev.aok /\ ev.ok2, TRUE, "append after reopen and second replay succeed")
    /\ Expect(ev.recs2, Expected(ev.to) \o ev.added, "after reopen + append nothing is lost")
    /\ UNCHANGED segs

Next == Reset \/ AppendEv \/ RotateEv \/ FinalEv \/ CutRange
Spec == Init /\ [][Next]_vars

TraceAccepted ==
    LET d == TLCGet("stats").diameter
    IN PrintT(<<"TRACE_HW", d - 1, Len(Trace)>>) /\ d - 1 = Len(Trace)
=============================================================================
