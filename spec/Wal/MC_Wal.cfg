SPECIFICATION Spec
CONSTANTS
 Types = {"entry","raft_state"}
 Sizes = {0,1,7}
 MaxRecs = 3
 MaxSegs = 2
 Faults = {"Cut","Flip"}
 Deviations = {}
VIEW view
INVARIANT CutReplayExact
INVARIANT AppendNotLost
INVARIANT FlipNeverServed
CHECK_DEADLOCK FALSE
