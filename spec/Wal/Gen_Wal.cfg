SPECIFICATION Spec
CONSTANTS
 Types = {"entry","raft_entry","raft_state","raft_snapshot"}
 Sizes = {0,1,7,600,4096}
 MaxRecs = 5
 MaxSegs = 3
 Faults = {}
 Deviations = {}
INVARIANT EmitHist
CHECK_DEADLOCK FALSE
