-------------------------------- MODULE Wal --------------------------------
(* Enumerator / oracle for NoKV's write-ahead log (wal/manager.go, wal/record.go,         *)
(* wal/record_iterator.go).  Used in three ways (DESIGN.md section 5, C13/C14):           *)
(*   M1  TLC checks the byte-framing logic for every cut offset over tiny records;        *)
(*   M2  TLC generates record-sequence shapes (types, payload size classes, rotations)    *)
(*       that harness/cmd/wal builds with the real wal.Manager and then cuts at EVERY     *)
(*       byte offset (harness/cmd/corrupt: flips every bit);                              *)
(*   oracle: CompleteBefore(n) is the definition the trace spec WalPropTrace.tla uses.    *)
(*                                                                                        *)
(* A segment is a sequence of typed records; a record with payload size s occupies        *)
(* 4 (length) + 1 (type) + s + 4 (crc) bytes.                                             *)
(*   Append(t, s)   AppendRecords + Sync (buffered writer flushed)                        *)
(*   Rotate         Rotate / SwitchSegment(next, truncate)                                *)
(*   Cut(n)         the final segment is truncated at byte n (torn tail)                  *)
(*   FlipBit(i, f)  one bit of field f of record i of the final segment is flipped        *)
(*   VerifyDir      verifySegment: scan, truncate a partial record at the tail            *)
(*   Replay         Manager.Replay: all complete records, segment by segment              *)
(*   ReopenAppend   Open (openLatestSegment resumes the highest segment at its end),      *)
(*                  append two records, Replay again                                      *)
EXTENDS Integers, Sequences, FiniteSets, SequencesExt, TLC, Json

CONSTANTS Types,        \* record types (strings)
          Sizes,        \* payload sizes (bytes)
          MaxRecs, MaxSegs,
          Faults,       \* subset of {"Cut", "Flip"}
          Deviations    \* "TornHeaderKept": DecodeRecord reports a 1..3 byte torn header as a clean
                        \*   EOF, so VerifyDir does not truncate it and a reopened log appends behind
                        \*   garbage (repaired by the fix: commit; kept as a switch)

Rec(t, s) == [type |-> t, size |-> s]
Bytes(r)  == r.size + 9
RECURSIVE SegBytes(_)
SegBytes(seg) == IF seg = <<>> THEN 0 ELSE Bytes(Head(seg)) + SegBytes(Tail(seg))
EndOf(seg, i) == SegBytes(SubSeq(seg, 1, i))          \* byte offset just after record i
\* records of a segment that lie completely before byte n
CompleteBefore(seg, n) == SubSeq(seg, 1, Max({0} \cup {i \in 1..Len(seg) : EndOf(seg, i) <= n}))
Fields == {"len", "type", "payload", "crc"}

VARIABLES segs,      \* sealed and active segments, oldest first; the last one is the active one
          phase,     \* "build", "faulted", "verified", "replayed", "appended", "done"
          cut,       \* byte offset of the cut (-1: none)
          junk,      \* bytes of a torn record still at the tail of the final segment
          flip,      \* [i, f] of the flipped bit (i = 0: none)
          verifyErr, \* VerifyDir returned an error
          out1,      \* first replay: [ok, recs]
          added,     \* records appended after reopen
          out2,      \* second replay
          hist
vars == <<segs, phase, cut, junk, flip, verifyErr, out1, added, out2, hist>>
view == <<segs, phase, cut, junk, flip, verifyErr, out1, added, out2>>

Active   == segs[Len(segs)]
NRecs  == Len(FlattenSeq(segs))
NoOut  == [ok |-> TRUE, recs |-> <<>>]
Log(r) == hist' = Append(hist, r)

Init == /\ segs = <<<<>>>> /\ phase = "build" /\ cut = -1 /\ junk = 0 /\ flip = [i |-> 0, f |-> "len"]
        /\ verifyErr = FALSE /\ out1 = NoOut /\ added = <<>> /\ out2 = NoOut /\ hist = <<>>

AppendRec(t, s) ==
    /\ phase = "build" /\ NRecs < MaxRecs
    /\ segs' = [segs EXCEPT ![Len(segs)] = Append(@, Rec(t, s))]
    /\ Log([op |-> "Append", type |-> t, size |-> s])
    /\ UNCHANGED <<phase, cut, junk, flip, verifyErr, out1, added, out2>>
Rotate ==
    /\ phase = "build" /\ Len(segs) < MaxSegs
    /\ segs' = Append(segs, <<>>) /\ Log([op |-> "Rotate"])
    /\ UNCHANGED <<phase, cut, junk, flip, verifyErr, out1, added, out2>>

\* ------------------------------------------------------------------ faults
Cut(n) ==
    /\ phase = "build" /\ "Cut" \in Faults /\ n \in 0..SegBytes(Active)
    /\ LET keep == CompleteBefore(Active, n)
       IN /\ segs' = [segs EXCEPT ![Len(segs)] = keep]
          /\ junk' = n - SegBytes(keep)
    /\ cut' = n /\ phase' = "faulted"
    /\ UNCHANGED <<flip, verifyErr, out1, added, out2, hist>>
FlipBit(i, f) ==
    /\ phase = "build" /\ "Flip" \in Faults /\ i \in 1..Len(Active)
    /\ f \in (IF Active[i].size = 0 THEN Fields \ {"payload"} ELSE Fields)
    /\ flip' = [i |-> i, f |-> f] /\ phase' = "faulted"
    /\ UNCHANGED <<segs, cut, junk, verifyErr, out1, added, out2, hist>>

\* what a scan of the final segment yields: the records before the flipped one; the flipped record
\* fails its CRC (type/payload/crc bits) or misframes the rest of the file (length bits): either way
\* nothing at or after it is returned
Readable == IF flip.i = 0 THEN Active ELSE SubSeq(Active, 1, flip.i - 1)
Earlier  == FlattenSeq(SubSeq(segs, 1, Len(segs) - 1))

\* --------------------------------------------------------------- recovery
VerifyDir ==
    /\ phase = "faulted"
    /\ IF flip.i # 0
       THEN /\ verifyErr' \in (IF flip.f = "len" THEN BOOLEAN ELSE {TRUE})  \* a length flip may also look like a torn tail
            /\ UNCHANGED junk
       ELSE /\ verifyErr' = FALSE
            \* header incomplete (1..3 bytes): DecodeRecord says io.EOF, nothing is truncated
            /\ junk' = IF junk \in 1..3 /\ "TornHeaderKept" \in Deviations THEN junk ELSE 0
    /\ phase' = "verified"
    /\ UNCHANGED <<segs, cut, flip, out1, added, out2, hist>>
Replay ==
    /\ phase = "verified"
    /\ out1' = [ok |-> flip.i = 0, recs |-> Earlier \o Readable]
    /\ phase' = "replayed"
    /\ UNCHANGED <<segs, cut, junk, flip, verifyErr, added, out2, hist>>
ReopenAppend(r1, r2) ==
    /\ phase = "replayed" /\ flip.i = 0
    /\ added' = <<r1, r2>>
    \* behind garbage the new records are misframed: the scan stops (with an error) at the garbage
    /\ out2' = IF junk = 0 THEN [ok |-> TRUE, recs |-> Earlier \o Active \o <<r1, r2>>]
               ELSE [ok |-> FALSE, recs |-> Earlier \o Active]
    /\ phase' = "done"
    /\ UNCHANGED <<segs, cut, junk, flip, verifyErr, out1, hist>>

Next == \/ \E t \in Types, s \in Sizes : AppendRec(t, s)
        \/ Rotate
        \/ \E n \in 0..SegBytes(Active) : Cut(n)
        \/ \E i \in 1..Len(Active), f \in Fields : FlipBit(i, f)
        \/ VerifyDir \/ Replay
        \/ \E t \in Types : ReopenAppend(Rec(t, 1), Rec(t, 0))
Spec == Init /\ [][Next]_vars

\* ------------------------------------------------------------------ properties
\* C13: after a cut, replay = exactly the records complete before the cut (segs already holds them)
CutReplayExact == (phase \in {"replayed", "done"} /\ cut >= 0) => (out1.ok /\ out1.recs = Earlier \o Active /\ ~verifyErr)
\* C13: a reopened log appends after them without losing any
AppendNotLost == (phase = "done" /\ cut >= 0) => (out2.ok /\ out2.recs = Earlier \o Active \o added)
\* C14: a flipped bit gives an error, or the returned records are a prefix (hence a subsequence) of the originals
FlipNeverServed == (phase \in {"replayed", "done"} /\ flip.i # 0) =>
                      (~out1.ok \/ verifyErr) /\ IsPrefix(out1.recs, Earlier \o Active)

\* ----------------------------------------------------------- shape generation
EmitHist == (phase = "build" /\ NRecs = MaxRecs) => PrintT(<<"SCHED", ToJson(hist)>>)
=============================================================================
