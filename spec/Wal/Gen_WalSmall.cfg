SPECIFICATION Spec
CONSTANTS
 Types = {"entry","raft_entry","raft_state","raft_snapshot"}
 Sizes = {0,1,7,33}
 MaxRecs = 4
 MaxSegs = 2
 Faults = {}
 Deviations = {}
INVARIANT EmitHist
CHECK_DEADLOCK FALSE
