\* Documentation only: the WAL before the fix: commit "wal: a torn 1..3 byte record header is a partial record".
\* AppendNotLost is violated: Append(entry,0); Cut(10) (one byte of the next header... here: 1..3 junk bytes kept); ReopenAppend.
SPECIFICATION Spec
CONSTANTS
 Types = {"entry","raft_state"}
 Sizes = {0,1,7}
 MaxRecs = 3
 MaxSegs = 2
 Faults = {"Cut","Flip"}
 Deviations = {"TornHeaderKept"}
VIEW view
INVARIANT CutReplayExact
INVARIANT AppendNotLost
INVARIANT FlipNeverServed
CHECK_DEADLOCK FALSE
