---------------------------- MODULE CallsReturn ----------------------------
(* Property layer for C37: every call issued on the DB returns - with success or with one *)
(* of the errors the API documents - under any workload (L0 throttle toggled, hot-key     *)
(* throttle, full commit queue, Close at any time), and Close itself returns.             *)
(*                                                                                       *)
(* Logged events (recorded by harness/cmd/pipeline around the public API only):          *)
(*   Call(op, t, kind)   kind in Set | Del | Get | Close                                  *)
(*   Ret(op, t, r)       r = reply class: ok | hot | toobig | blocked | NOTFOUND | value  *)
(*                       (a panic or an undocumented error is not a return: no such class)*)
(*   End(pending)        the scenario is over: the driver's threads have all finished, or *)
(*                       its budget expired with `pending` calls still inside the engine  *)
(*   Reset               next scenario (fresh DB)                                         *)
(* The trace is explainable iff calls and returns pair up, each thread has at most one    *)
(* call in flight, every reply is a legal reply of its kind, and nothing is pending at    *)
(* End.  Whether an End with pending calls is a reproducible deadlock (and therefore a    *)
(* violation rather than a slow machine) is decided by the check from goroutine dumps of  *)
(* two executions - see docs/design.d/pipeline.md.                                        *)
EXTENDS Integers, Sequences, FiniteSets, TLC, Json, IOUtils

Trace == ndJsonDeserialize(IOEnv.TRACE)

\* ioerr: the I/O fault the driver injected itself (a failed write or Close still has to return)
Replies == [Set   |-> {"ok", "hot", "toobig", "blocked", "ioerr"},
            Del   |-> {"ok", "hot", "toobig", "blocked", "ioerr"},
            Get   |-> {"value", "NOTFOUND"},
            Close |-> {"ok", "ioerr"}]

VARIABLES l,        \* next trace line to explain
          pend      \* [op id -> [t, kind]] calls in flight
vars == <<l, pend>>

Empty == [x \in {} |-> 0]
ev == Trace[l]
IsEvent(name) == l <= Len(Trace) /\ ev.e = name /\ l' = l + 1

Init == l = 1 /\ pend = Empty

Reset == IsEvent("Reset") /\ pend' = Empty

Call == /\ IsEvent("Call")
        /\ ev.kind \in DOMAIN Replies
        /\ ev.op \notin DOMAIN pend
        /\ \A o \in DOMAIN pend : pend[o].t # ev.t          \* a thread issues one call at a time
        /\ pend' = [x \in DOMAIN pend \cup {ev.op} |-> IF x = ev.op THEN [t |-> ev.t, kind |-> ev.kind] ELSE pend[x]]

Ret == /\ IsEvent("Ret")
       /\ ev.op \in DOMAIN pend
       /\ pend[ev.op].t = ev.t
       /\ ev.r \in Replies[pend[ev.op].kind]
       /\ pend' = [x \in DOMAIN pend \ {ev.op} |-> pend[x]]

End == /\ IsEvent("End")
       /\ ev.pending = 0
       /\ pend = Empty
       /\ UNCHANGED pend

Next == Reset \/ Call \/ Ret \/ End
Spec == Init /\ [][Next]_vars

TraceAccepted ==
    LET d == TLCGet("stats").diameter
    IN PrintT(<<"TRACE_HW", d - 1, Len(Trace)>>) /\ d - 1 = Len(Trace)
=============================================================================
