SPECIFICATION Spec
CONSTANTS
 Writers = {"w1", "w2"}
 OpsPerWriter = 2
 Readers = {"r"}
 ReaderOps = 1
 Cap = 2
 MaxBatch = 2
 MaxFaults = 0
 MaxToggles = 2
 DoClose = FALSE
 ReleaseThrottle = TRUE
 Deviations = {}
PROPERTY EveryCallReturns
CHECK_DEADLOCK FALSE
