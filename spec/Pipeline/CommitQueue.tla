---------------------------- MODULE CommitQueue ----------------------------
(* Implementation-shaped model of NoKV's write pipeline (db_write.go, db.go):            *)
(*                                                                                       *)
(*   writers   DB.Set/Del -> setEntry -> maybeThrottleWrite (hot-key clamp) ->           *)
(*             sendToWriteCh (L0 throttle wait loop, size check) ->                      *)
(*             enqueueCommitRequest (inflight++, closed?, acquireSpace, closed?,         *)
(*             Ring.Push, queueLen++, releaseItem, inflight--) -> request.Wait (wg)      *)
(*   worker    commitWorker: nextCommitBatch (acquireItem, pop, coalesce up to           *)
(*             MaxBatch) -> vlog.write -> applyRequests -> finishCommitRequests          *)
(*   closer    DB.Close: commitQueue.close (closed, ring.Close, close(closeCh)),         *)
(*             commitWG.Wait, rest of closeInternal, isClosed                            *)
(*   toggler   lsm.throttleWrites -> DB.applyThrottle (blockWrites flag)                 *)
(*   readers   DB.Get (does not touch the queue)                                         *)
(*                                                                                       *)
(* One label = one atomic memory access / channel operation of the code.  utils.Ring is  *)
(* modelled with its two-phase Push (CAS on tail reserves the slot, the sequence store   *)
(* publishes it; Pop reports "empty" until the head slot is published).                  *)
(*                                                                                       *)
(* Deviations names behaviour of earlier revisions of the code so that the regression is *)
(* checkable: "DrainChecksQueueLenFirst" = acquireItem tested queueLen == 0 before       *)
(* inflight == 0 when the queue is closed (the worker could exit between a writer's      *)
(* push and its queueLen++, leaving the request un-acked for ever).                      *)
EXTENDS Integers, Sequences, FiniteSets, TLC

CONSTANTS Writers,        \* writer thread ids
          OpsPerWriter,   \* calls per writer
          Readers, ReaderOps,
          Cap,            \* ring capacity = initial number of `spaces` tokens
          MaxBatch,       \* WriteBatchMaxCount: requests coalesced into one batch
          MaxFaults,      \* vlog.write / writeToLSM failures injected (per-request error propagation)
          MaxToggles,     \* throttle toggles by the environment
          DoClose,        \* a Close call is issued (at any time)
          ReleaseThrottle,\* environment assumption: the L0 throttle is eventually released
          Deviations

Reqs == Writers \X (1..OpsPerWriter)
Drop(s, r) == SelectSeq(s, LAMBDA x : x # r)
Range(s) == {s[i] : i \in DOMAIN s}
IsPrefix(s, t) == Len(s) <= Len(t) /\ \A i \in 1..Len(s) : s[i] = t[i]

(* --algorithm CommitQueue {
variables
  ring = <<>>,            \* reserved slots in tail order: [r |-> request, pub |-> published]
  spaces = Cap, items = 0, queueLen = 0, inflight = 0,
  closed = FALSE, ringClosed = FALSE, closeCh = FALSE, dbClosed = FALSE,
  blockWrites = FALSE,
  acks = [r \in Reqs |-> 0],          \* wg.Done calls made by the worker
  err = [r \in Reqs |-> "none"],      \* request.Err
  result = [r \in Reqs |-> "pending"],\* what the call returned
  pushed = <<>>, popped = <<>>, applied = <<>>,   \* ghosts: reservation / dequeue / apply order
  workerDone = FALSE, closerDone = FALSE,
  faults = 0, toggles = 0,
  reads = [x \in Readers |-> 0];

define {
  Returned(r) == result[r] # "pending"
  AllReturned == /\ \A r \in Reqs : Returned(r)
                 /\ DoClose => closerDone
                 /\ \A x \in Readers : reads[x] = ReaderOps
  PubCount == Cardinality({i \in DOMAIN ring : ring[i].pub})
}

fair process (w \in Writers)
variables n = 1, me = <<self, 0>>;
{
w_call:
  while (n <= OpsPerWriter) {
    me := <<self, n>>;
w_thr:      \* maybeThrottleWrite (hot-key clamp rejects before anything is shared), then
            \* sendToWriteCh: for atomic.LoadInt32(&db.blockWrites) == 1
    either { result[me] := "hot"; n := n + 1; goto w_call }
    or {
      if (blockWrites) {
w_thr2:     \* isClosed / commitQueue.closed (both only ever go 0 -> 1)
        if (dbClosed \/ closed) { result[me] := "blocked"; n := n + 1; goto w_call } else { goto w_thr };
      };
    };
e_inf:      \* size check (count >= MaxBatchCount || size >= MaxBatchSize), then enqueueCommitRequest
    either { result[me] := "toobig"; n := n + 1; goto w_call }
    or     { inflight := inflight + 1 };
e_chk1:
    if (closed) { inflight := inflight - 1; result[me] := "blocked"; n := n + 1; goto w_call };
e_acq:      \* acquireSpace: select on spaces / closeCh
    either { await spaces > 0; spaces := spaces - 1 }
    or     { await closeCh; inflight := inflight - 1; result[me] := "blocked"; n := n + 1; goto w_call };
e_chk2:
    if (closed) { spaces := spaces + 1; inflight := inflight - 1; result[me] := "blocked"; n := n + 1; goto w_call };
e_push1:    \* Ring.Push: r.closed.Load()
    if (ringClosed) { spaces := spaces + 1; inflight := inflight - 1; result[me] := "blocked"; n := n + 1; goto w_call };
e_push2:    \* CAS tail: the slot is reserved (a space token is held, so the ring is not full)
    ring := Append(ring, [r |-> me, pub |-> FALSE]);
    pushed := Append(pushed, me);
e_push3:    \* slot.seq.Store: published
    ring := [j \in DOMAIN ring |-> IF ring[j].r = me THEN [ring[j] EXCEPT !.pub = TRUE] ELSE ring[j]];
e_qlen:
    queueLen := queueLen + 1;
e_item:     \* releaseItem
    items := items + 1;
e_ret:      \* deferred inflight--
    inflight := inflight - 1;
w_wait:     \* request.Wait: wg.Wait, then read Err
    await acks[me] > 0;
    result[me] := IF err[me] = "none" THEN "ok" ELSE err[me];
    n := n + 1;
  }
}

fair process (worker = "worker")
variables batch = <<>>, bi = 1, failAt = -1;
{
k_try:      \* acquireItem: tryAcquireItem
  if (items > 0) { items := items - 1; goto k_pop };
k_closed:
  if (closed) {
    if ("DrainChecksQueueLenFirst" \in Deviations) {
k_dq1:  if (queueLen # 0) { goto k_try };
k_dq2:  if (inflight # 0) { goto k_try } else { goto k_exit };
    } else {
k_di1:  if (inflight # 0) { goto k_try };
k_di2:  if (queueLen # 0) { goto k_try } else { goto k_exit };
    }
  };
k_sel:      \* select { case <-items; case <-closeCh }
  either { await items > 0; items := items - 1; goto k_pop }
  or     { await closeCh; goto k_try };
k_pop:      \* cq.pop: Ring.Pop spins until the head slot is published; queueLen--; releaseSpace
            \* (one step: only the worker reads queueLen, and handing the space token back a
            \*  moment earlier adds no behaviour)
  await Len(ring) > 0 /\ ring[1].pub;
  batch := Append(batch, ring[1].r);
  popped := Append(popped, ring[1].r);
  ring := Tail(ring);
  queueLen := queueLen - 1;
  spaces := spaces + 1;
k_more:     \* coalescing loop (the optional WriteBatchWait sleep is just a delay here)
  if (Len(batch) < MaxBatch /\ items > 0) { items := items - 1; goto k_pop };
k_proc:     \* vlog.write(requests), then applyRequests request by request.  failAt = 0: vlog.write
            \* failed (nothing applied, every request fails); failAt = f > 0: writeToLSM failed at
            \* request f (requests before f applied and succeed, f.. fail).  Nobody else sees these steps.
  either { failAt := -1 }
  or     { await faults < MaxFaults; faults := faults + 1; with (f \in 0..Len(batch)) { failAt := f } };
  applied := applied \o (IF failAt = -1 THEN batch ELSE SubSeq(batch, 1, failAt - 1));
  bi := 1;
k_ack:      \* finishCommitRequests: Err, wg.Done per request
  while (bi <= Len(batch)) {
    err[batch[bi]] := IF failAt = 0 \/ (failAt > 0 /\ bi >= failAt) THEN "ioerr" ELSE "none";
    acks[batch[bi]] := acks[batch[bi]] + 1;
    bi := bi + 1;
  };
  batch := <<>>; bi := 1; failAt := -1;
  goto k_try;
k_exit:
  workerDone := TRUE;
}

fair process (closer = "closer")
{
c_cas:      \* commitQueue.close: CompareAndSwap(&closed, 0, 1)
  await DoClose;
  closed := TRUE;
c_ring:
  ringClosed := TRUE;
c_ch:
  closeCh := TRUE;
c_wait:     \* commitWG.Wait, then the rest of closeInternal ... isClosed = 1
  await workerDone;
  dbClosed := TRUE;
  closerDone := TRUE;
}

fair process (toggler = "toggler")
{
t_loop:     \* lsm.throttleWrites -> applyThrottle, at any time, any number of times up to MaxToggles
  while (toggles < MaxToggles) {
    either { blockWrites := ~blockWrites; toggles := toggles + 1 }
    or     { goto t_final };
  };
t_final:
  if (ReleaseThrottle) { blockWrites := FALSE };
}

fair process (rd \in Readers)
{
r_get:      \* DB.Get never touches the queue
  while (reads[self] < ReaderOps) { reads[self] := reads[self] + 1 };
}
} *)
\* BEGIN TRANSLATION
VARIABLES pc, ring, spaces, items, queueLen, inflight, closed, ringClosed, 
          closeCh, dbClosed, blockWrites, acks, err, result, pushed, popped, 
          applied, workerDone, closerDone, faults, toggles, reads

(* define statement *)
Returned(r) == result[r] # "pending"
AllReturned == /\ \A r \in Reqs : Returned(r)
               /\ DoClose => closerDone
               /\ \A x \in Readers : reads[x] = ReaderOps
PubCount == Cardinality({i \in DOMAIN ring : ring[i].pub})

VARIABLES n, me, batch, bi, failAt

vars == << pc, ring, spaces, items, queueLen, inflight, closed, ringClosed, 
           closeCh, dbClosed, blockWrites, acks, err, result, pushed, popped, 
           applied, workerDone, closerDone, faults, toggles, reads, n, me, 
           batch, bi, failAt >>

ProcSet == (Writers) \cup {"worker"} \cup {"closer"} \cup {"toggler"} \cup (Readers)

Init == (* Global variables *)
        /\ ring = <<>>
        /\ spaces = Cap
        /\ items = 0
        /\ queueLen = 0
        /\ inflight = 0
        /\ closed = FALSE
        /\ ringClosed = FALSE
        /\ closeCh = FALSE
        /\ dbClosed = FALSE
        /\ blockWrites = FALSE
        /\ acks = [r \in Reqs |-> 0]
        /\ err = [r \in Reqs |-> "none"]
        /\ result = [r \in Reqs |-> "pending"]
        /\ pushed = <<>>
        /\ popped = <<>>
        /\ applied = <<>>
        /\ workerDone = FALSE
        /\ closerDone = FALSE
        /\ faults = 0
        /\ toggles = 0
        /\ reads = [x \in Readers |-> 0]
        (* Process w *)
        /\ n = [self \in Writers |-> 1]
        /\ me = [self \in Writers |-> <<self, 0>>]
        (* Process worker *)
        /\ batch = <<>>
        /\ bi = 1
        /\ failAt = -1
        /\ pc = [self \in ProcSet |-> CASE self \in Writers -> "w_call"
                                        [] self = "worker" -> "k_try"
                                        [] self = "closer" -> "c_cas"
                                        [] self = "toggler" -> "t_loop"
                                        [] self \in Readers -> "r_get"]

w_call(self) == /\ pc[self] = "w_call"
                /\ IF n[self] <= OpsPerWriter
                      THEN /\ me' = [me EXCEPT ![self] = <<self, n[self]>>]
                           /\ pc' = [pc EXCEPT ![self] = "w_thr"]
                      ELSE /\ pc' = [pc EXCEPT ![self] = "Done"]
                           /\ me' = me
                /\ UNCHANGED << ring, spaces, items, queueLen, inflight, 
                                closed, ringClosed, closeCh, dbClosed, 
                                blockWrites, acks, err, result, pushed, popped, 
                                applied, workerDone, closerDone, faults, 
                                toggles, reads, n, batch, bi, failAt >>

w_thr(self) == /\ pc[self] = "w_thr"
               /\ \/ /\ result' = [result EXCEPT ![me[self]] = "hot"]
                     /\ n' = [n EXCEPT ![self] = n[self] + 1]
                     /\ pc' = [pc EXCEPT ![self] = "w_call"]
                  \/ /\ IF blockWrites
                           THEN /\ pc' = [pc EXCEPT ![self] = "w_thr2"]
                           ELSE /\ pc' = [pc EXCEPT ![self] = "e_inf"]
                     /\ UNCHANGED <<result, n>>
               /\ UNCHANGED << ring, spaces, items, queueLen, inflight, closed, 
                               ringClosed, closeCh, dbClosed, blockWrites, 
                               acks, err, pushed, popped, applied, workerDone, 
                               closerDone, faults, toggles, reads, me, batch, 
                               bi, failAt >>

w_thr2(self) == /\ pc[self] = "w_thr2"
                /\ IF dbClosed \/ closed
                      THEN /\ result' = [result EXCEPT ![me[self]] = "blocked"]
                           /\ n' = [n EXCEPT ![self] = n[self] + 1]
                           /\ pc' = [pc EXCEPT ![self] = "w_call"]
                      ELSE /\ pc' = [pc EXCEPT ![self] = "w_thr"]
                           /\ UNCHANGED << result, n >>
                /\ UNCHANGED << ring, spaces, items, queueLen, inflight, 
                                closed, ringClosed, closeCh, dbClosed, 
                                blockWrites, acks, err, pushed, popped, 
                                applied, workerDone, closerDone, faults, 
                                toggles, reads, me, batch, bi, failAt >>

e_inf(self) == /\ pc[self] = "e_inf"
               /\ \/ /\ result' = [result EXCEPT ![me[self]] = "toobig"]
                     /\ n' = [n EXCEPT ![self] = n[self] + 1]
                     /\ pc' = [pc EXCEPT ![self] = "w_call"]
                     /\ UNCHANGED inflight
                  \/ /\ inflight' = inflight + 1
                     /\ pc' = [pc EXCEPT ![self] = "e_chk1"]
                     /\ UNCHANGED <<result, n>>
               /\ UNCHANGED << ring, spaces, items, queueLen, closed, 
                               ringClosed, closeCh, dbClosed, blockWrites, 
                               acks, err, pushed, popped, applied, workerDone, 
                               closerDone, faults, toggles, reads, me, batch, 
                               bi, failAt >>

e_chk1(self) == /\ pc[self] = "e_chk1"
                /\ IF closed
                      THEN /\ inflight' = inflight - 1
                           /\ result' = [result EXCEPT ![me[self]] = "blocked"]
                           /\ n' = [n EXCEPT ![self] = n[self] + 1]
                           /\ pc' = [pc EXCEPT ![self] = "w_call"]
                      ELSE /\ pc' = [pc EXCEPT ![self] = "e_acq"]
                           /\ UNCHANGED << inflight, result, n >>
                /\ UNCHANGED << ring, spaces, items, queueLen, closed, 
                                ringClosed, closeCh, dbClosed, blockWrites, 
                                acks, err, pushed, popped, applied, workerDone, 
                                closerDone, faults, toggles, reads, me, batch, 
                                bi, failAt >>

e_acq(self) == /\ pc[self] = "e_acq"
               /\ \/ /\ spaces > 0
                     /\ spaces' = spaces - 1
                     /\ pc' = [pc EXCEPT ![self] = "e_chk2"]
                     /\ UNCHANGED <<inflight, result, n>>
                  \/ /\ closeCh
                     /\ inflight' = inflight - 1
                     /\ result' = [result EXCEPT ![me[self]] = "blocked"]
                     /\ n' = [n EXCEPT ![self] = n[self] + 1]
                     /\ pc' = [pc EXCEPT ![self] = "w_call"]
                     /\ UNCHANGED spaces
               /\ UNCHANGED << ring, items, queueLen, closed, ringClosed, 
                               closeCh, dbClosed, blockWrites, acks, err, 
                               pushed, popped, applied, workerDone, closerDone, 
                               faults, toggles, reads, me, batch, bi, failAt >>

e_chk2(self) == /\ pc[self] = "e_chk2"
                /\ IF closed
                      THEN /\ spaces' = spaces + 1
                           /\ inflight' = inflight - 1
                           /\ result' = [result EXCEPT ![me[self]] = "blocked"]
                           /\ n' = [n EXCEPT ![self] = n[self] + 1]
                           /\ pc' = [pc EXCEPT ![self] = "w_call"]
                      ELSE /\ pc' = [pc EXCEPT ![self] = "e_push1"]
                           /\ UNCHANGED << spaces, inflight, result, n >>
                /\ UNCHANGED << ring, items, queueLen, closed, ringClosed, 
                                closeCh, dbClosed, blockWrites, acks, err, 
                                pushed, popped, applied, workerDone, 
                                closerDone, faults, toggles, reads, me, batch, 
                                bi, failAt >>

e_push1(self) == /\ pc[self] = "e_push1"
                 /\ IF ringClosed
                       THEN /\ spaces' = spaces + 1
                            /\ inflight' = inflight - 1
                            /\ result' = [result EXCEPT ![me[self]] = "blocked"]
                            /\ n' = [n EXCEPT ![self] = n[self] + 1]
                            /\ pc' = [pc EXCEPT ![self] = "w_call"]
                       ELSE /\ pc' = [pc EXCEPT ![self] = "e_push2"]
                            /\ UNCHANGED << spaces, inflight, result, n >>
                 /\ UNCHANGED << ring, items, queueLen, closed, ringClosed, 
                                 closeCh, dbClosed, blockWrites, acks, err, 
                                 pushed, popped, applied, workerDone, 
                                 closerDone, faults, toggles, reads, me, batch, 
                                 bi, failAt >>

e_push2(self) == /\ pc[self] = "e_push2"
                 /\ ring' = Append(ring, [r |-> me[self], pub |-> FALSE])
                 /\ pushed' = Append(pushed, me[self])
                 /\ pc' = [pc EXCEPT ![self] = "e_push3"]
                 /\ UNCHANGED << spaces, items, queueLen, inflight, closed, 
                                 ringClosed, closeCh, dbClosed, blockWrites, 
                                 acks, err, result, popped, applied, 
                                 workerDone, closerDone, faults, toggles, 
                                 reads, n, me, batch, bi, failAt >>

e_push3(self) == /\ pc[self] = "e_push3"
                 /\ ring' = [j \in DOMAIN ring |-> IF ring[j].r = me[self] THEN [ring[j] EXCEPT !.pub = TRUE] ELSE ring[j]]
                 /\ pc' = [pc EXCEPT ![self] = "e_qlen"]
                 /\ UNCHANGED << spaces, items, queueLen, inflight, closed, 
                                 ringClosed, closeCh, dbClosed, blockWrites, 
                                 acks, err, result, pushed, popped, applied, 
                                 workerDone, closerDone, faults, toggles, 
                                 reads, n, me, batch, bi, failAt >>

e_qlen(self) == /\ pc[self] = "e_qlen"
                /\ queueLen' = queueLen + 1
                /\ pc' = [pc EXCEPT ![self] = "e_item"]
                /\ UNCHANGED << ring, spaces, items, inflight, closed, 
                                ringClosed, closeCh, dbClosed, blockWrites, 
                                acks, err, result, pushed, popped, applied, 
                                workerDone, closerDone, faults, toggles, reads, 
                                n, me, batch, bi, failAt >>

e_item(self) == /\ pc[self] = "e_item"
                /\ items' = items + 1
                /\ pc' = [pc EXCEPT ![self] = "e_ret"]
                /\ UNCHANGED << ring, spaces, queueLen, inflight, closed, 
                                ringClosed, closeCh, dbClosed, blockWrites, 
                                acks, err, result, pushed, popped, applied, 
                                workerDone, closerDone, faults, toggles, reads, 
                                n, me, batch, bi, failAt >>

e_ret(self) == /\ pc[self] = "e_ret"
               /\ inflight' = inflight - 1
               /\ pc' = [pc EXCEPT ![self] = "w_wait"]
               /\ UNCHANGED << ring, spaces, items, queueLen, closed, 
                               ringClosed, closeCh, dbClosed, blockWrites, 
                               acks, err, result, pushed, popped, applied, 
                               workerDone, closerDone, faults, toggles, reads, 
                               n, me, batch, bi, failAt >>

w_wait(self) == /\ pc[self] = "w_wait"
                /\ acks[me[self]] > 0
                /\ result' = [result EXCEPT ![me[self]] = IF err[me[self]] = "none" THEN "ok" ELSE err[me[self]]]
                /\ n' = [n EXCEPT ![self] = n[self] + 1]
                /\ pc' = [pc EXCEPT ![self] = "w_call"]
                /\ UNCHANGED << ring, spaces, items, queueLen, inflight, 
                                closed, ringClosed, closeCh, dbClosed, 
                                blockWrites, acks, err, pushed, popped, 
                                applied, workerDone, closerDone, faults, 
                                toggles, reads, me, batch, bi, failAt >>

w(self) == w_call(self) \/ w_thr(self) \/ w_thr2(self) \/ e_inf(self)
              \/ e_chk1(self) \/ e_acq(self) \/ e_chk2(self)
              \/ e_push1(self) \/ e_push2(self) \/ e_push3(self)
              \/ e_qlen(self) \/ e_item(self) \/ e_ret(self)
              \/ w_wait(self)

k_try == /\ pc["worker"] = "k_try"
         /\ IF items > 0
               THEN /\ items' = items - 1
                    /\ pc' = [pc EXCEPT !["worker"] = "k_pop"]
               ELSE /\ pc' = [pc EXCEPT !["worker"] = "k_closed"]
                    /\ items' = items
         /\ UNCHANGED << ring, spaces, queueLen, inflight, closed, ringClosed, 
                         closeCh, dbClosed, blockWrites, acks, err, result, 
                         pushed, popped, applied, workerDone, closerDone, 
                         faults, toggles, reads, n, me, batch, bi, failAt >>

k_closed == /\ pc["worker"] = "k_closed"
            /\ IF closed
                  THEN /\ IF "DrainChecksQueueLenFirst" \in Deviations
                             THEN /\ pc' = [pc EXCEPT !["worker"] = "k_dq1"]
                             ELSE /\ pc' = [pc EXCEPT !["worker"] = "k_di1"]
                  ELSE /\ pc' = [pc EXCEPT !["worker"] = "k_sel"]
            /\ UNCHANGED << ring, spaces, items, queueLen, inflight, closed, 
                            ringClosed, closeCh, dbClosed, blockWrites, acks, 
                            err, result, pushed, popped, applied, workerDone, 
                            closerDone, faults, toggles, reads, n, me, batch, 
                            bi, failAt >>

k_dq1 == /\ pc["worker"] = "k_dq1"
         /\ IF queueLen # 0
               THEN /\ pc' = [pc EXCEPT !["worker"] = "k_try"]
               ELSE /\ pc' = [pc EXCEPT !["worker"] = "k_dq2"]
         /\ UNCHANGED << ring, spaces, items, queueLen, inflight, closed, 
                         ringClosed, closeCh, dbClosed, blockWrites, acks, err, 
                         result, pushed, popped, applied, workerDone, 
                         closerDone, faults, toggles, reads, n, me, batch, bi, 
                         failAt >>

k_dq2 == /\ pc["worker"] = "k_dq2"
         /\ IF inflight # 0
               THEN /\ pc' = [pc EXCEPT !["worker"] = "k_try"]
               ELSE /\ pc' = [pc EXCEPT !["worker"] = "k_exit"]
         /\ UNCHANGED << ring, spaces, items, queueLen, inflight, closed, 
                         ringClosed, closeCh, dbClosed, blockWrites, acks, err, 
                         result, pushed, popped, applied, workerDone, 
                         closerDone, faults, toggles, reads, n, me, batch, bi, 
                         failAt >>

k_di1 == /\ pc["worker"] = "k_di1"
         /\ IF inflight # 0
               THEN /\ pc' = [pc EXCEPT !["worker"] = "k_try"]
               ELSE /\ pc' = [pc EXCEPT !["worker"] = "k_di2"]
         /\ UNCHANGED << ring, spaces, items, queueLen, inflight, closed, 
                         ringClosed, closeCh, dbClosed, blockWrites, acks, err, 
                         result, pushed, popped, applied, workerDone, 
                         closerDone, faults, toggles, reads, n, me, batch, bi, 
                         failAt >>

k_di2 == /\ pc["worker"] = "k_di2"
         /\ IF queueLen # 0
               THEN /\ pc' = [pc EXCEPT !["worker"] = "k_try"]
               ELSE /\ pc' = [pc EXCEPT !["worker"] = "k_exit"]
         /\ UNCHANGED << ring, spaces, items, queueLen, inflight, closed, 
                         ringClosed, closeCh, dbClosed, blockWrites, acks, err, 
                         result, pushed, popped, applied, workerDone, 
                         closerDone, faults, toggles, reads, n, me, batch, bi, 
                         failAt >>

k_sel == /\ pc["worker"] = "k_sel"
         /\ \/ /\ items > 0
               /\ items' = items - 1
               /\ pc' = [pc EXCEPT !["worker"] = "k_pop"]
            \/ /\ closeCh
               /\ pc' = [pc EXCEPT !["worker"] = "k_try"]
               /\ items' = items
         /\ UNCHANGED << ring, spaces, queueLen, inflight, closed, ringClosed, 
                         closeCh, dbClosed, blockWrites, acks, err, result, 
                         pushed, popped, applied, workerDone, closerDone, 
                         faults, toggles, reads, n, me, batch, bi, failAt >>

k_pop == /\ pc["worker"] = "k_pop"
         /\ Len(ring) > 0 /\ ring[1].pub
         /\ batch' = Append(batch, ring[1].r)
         /\ popped' = Append(popped, ring[1].r)
         /\ ring' = Tail(ring)
         /\ queueLen' = queueLen - 1
         /\ spaces' = spaces + 1
         /\ pc' = [pc EXCEPT !["worker"] = "k_more"]
         /\ UNCHANGED << items, inflight, closed, ringClosed, closeCh, 
                         dbClosed, blockWrites, acks, err, result, pushed, 
                         applied, workerDone, closerDone, faults, toggles, 
                         reads, n, me, bi, failAt >>

k_more == /\ pc["worker"] = "k_more"
          /\ IF Len(batch) < MaxBatch /\ items > 0
                THEN /\ items' = items - 1
                     /\ pc' = [pc EXCEPT !["worker"] = "k_pop"]
                ELSE /\ pc' = [pc EXCEPT !["worker"] = "k_proc"]
                     /\ items' = items
          /\ UNCHANGED << ring, spaces, queueLen, inflight, closed, ringClosed, 
                          closeCh, dbClosed, blockWrites, acks, err, result, 
                          pushed, popped, applied, workerDone, closerDone, 
                          faults, toggles, reads, n, me, batch, bi, failAt >>

k_proc == /\ pc["worker"] = "k_proc"
          /\ \/ /\ failAt' = -1
                /\ UNCHANGED faults
             \/ /\ faults < MaxFaults
                /\ faults' = faults + 1
                /\ \E f \in 0..Len(batch):
                     failAt' = f
          /\ applied' = applied \o (IF failAt' = -1 THEN batch ELSE SubSeq(batch, 1, failAt' - 1))
          /\ bi' = 1
          /\ pc' = [pc EXCEPT !["worker"] = "k_ack"]
          /\ UNCHANGED << ring, spaces, items, queueLen, inflight, closed, 
                          ringClosed, closeCh, dbClosed, blockWrites, acks, 
                          err, result, pushed, popped, workerDone, closerDone, 
                          toggles, reads, n, me, batch >>

k_ack == /\ pc["worker"] = "k_ack"
         /\ IF bi <= Len(batch)
               THEN /\ err' = [err EXCEPT ![batch[bi]] = IF failAt = 0 \/ (failAt > 0 /\ bi >= failAt) THEN "ioerr" ELSE "none"]
                    /\ acks' = [acks EXCEPT ![batch[bi]] = acks[batch[bi]] + 1]
                    /\ bi' = bi + 1
                    /\ pc' = [pc EXCEPT !["worker"] = "k_ack"]
                    /\ UNCHANGED << batch, failAt >>
               ELSE /\ batch' = <<>>
                    /\ bi' = 1
                    /\ failAt' = -1
                    /\ pc' = [pc EXCEPT !["worker"] = "k_try"]
                    /\ UNCHANGED << acks, err >>
         /\ UNCHANGED << ring, spaces, items, queueLen, inflight, closed, 
                         ringClosed, closeCh, dbClosed, blockWrites, result, 
                         pushed, popped, applied, workerDone, closerDone, 
                         faults, toggles, reads, n, me >>

k_exit == /\ pc["worker"] = "k_exit"
          /\ workerDone' = TRUE
          /\ pc' = [pc EXCEPT !["worker"] = "Done"]
          /\ UNCHANGED << ring, spaces, items, queueLen, inflight, closed, 
                          ringClosed, closeCh, dbClosed, blockWrites, acks, 
                          err, result, pushed, popped, applied, closerDone, 
                          faults, toggles, reads, n, me, batch, bi, failAt >>

worker == k_try \/ k_closed \/ k_dq1 \/ k_dq2 \/ k_di1 \/ k_di2 \/ k_sel
             \/ k_pop \/ k_more \/ k_proc \/ k_ack \/ k_exit

c_cas == /\ pc["closer"] = "c_cas"
         /\ DoClose
         /\ closed' = TRUE
         /\ pc' = [pc EXCEPT !["closer"] = "c_ring"]
         /\ UNCHANGED << ring, spaces, items, queueLen, inflight, ringClosed, 
                         closeCh, dbClosed, blockWrites, acks, err, result, 
                         pushed, popped, applied, workerDone, closerDone, 
                         faults, toggles, reads, n, me, batch, bi, failAt >>

c_ring == /\ pc["closer"] = "c_ring"
          /\ ringClosed' = TRUE
          /\ pc' = [pc EXCEPT !["closer"] = "c_ch"]
          /\ UNCHANGED << ring, spaces, items, queueLen, inflight, closed, 
                          closeCh, dbClosed, blockWrites, acks, err, result, 
                          pushed, popped, applied, workerDone, closerDone, 
                          faults, toggles, reads, n, me, batch, bi, failAt >>

c_ch == /\ pc["closer"] = "c_ch"
        /\ closeCh' = TRUE
        /\ pc' = [pc EXCEPT !["closer"] = "c_wait"]
        /\ UNCHANGED << ring, spaces, items, queueLen, inflight, closed, 
                        ringClosed, dbClosed, blockWrites, acks, err, result, 
                        pushed, popped, applied, workerDone, closerDone, 
                        faults, toggles, reads, n, me, batch, bi, failAt >>

c_wait == /\ pc["closer"] = "c_wait"
          /\ workerDone
          /\ dbClosed' = TRUE
          /\ closerDone' = TRUE
          /\ pc' = [pc EXCEPT !["closer"] = "Done"]
          /\ UNCHANGED << ring, spaces, items, queueLen, inflight, closed, 
                          ringClosed, closeCh, blockWrites, acks, err, result, 
                          pushed, popped, applied, workerDone, faults, toggles, 
                          reads, n, me, batch, bi, failAt >>

closer == c_cas \/ c_ring \/ c_ch \/ c_wait

t_loop == /\ pc["toggler"] = "t_loop"
          /\ IF toggles < MaxToggles
                THEN /\ \/ /\ blockWrites' = ~blockWrites
                           /\ toggles' = toggles + 1
                           /\ pc' = [pc EXCEPT !["toggler"] = "t_loop"]
                        \/ /\ pc' = [pc EXCEPT !["toggler"] = "t_final"]
                           /\ UNCHANGED <<blockWrites, toggles>>
                ELSE /\ pc' = [pc EXCEPT !["toggler"] = "t_final"]
                     /\ UNCHANGED << blockWrites, toggles >>
          /\ UNCHANGED << ring, spaces, items, queueLen, inflight, closed, 
                          ringClosed, closeCh, dbClosed, acks, err, result, 
                          pushed, popped, applied, workerDone, closerDone, 
                          faults, reads, n, me, batch, bi, failAt >>

t_final == /\ pc["toggler"] = "t_final"
           /\ IF ReleaseThrottle
                 THEN /\ blockWrites' = FALSE
                 ELSE /\ TRUE
                      /\ UNCHANGED blockWrites
           /\ pc' = [pc EXCEPT !["toggler"] = "Done"]
           /\ UNCHANGED << ring, spaces, items, queueLen, inflight, closed, 
                           ringClosed, closeCh, dbClosed, acks, err, result, 
                           pushed, popped, applied, workerDone, closerDone, 
                           faults, toggles, reads, n, me, batch, bi, failAt >>

toggler == t_loop \/ t_final

r_get(self) == /\ pc[self] = "r_get"
               /\ IF reads[self] < ReaderOps
                     THEN /\ reads' = [reads EXCEPT ![self] = reads[self] + 1]
                          /\ pc' = [pc EXCEPT ![self] = "r_get"]
                     ELSE /\ pc' = [pc EXCEPT ![self] = "Done"]
                          /\ reads' = reads
               /\ UNCHANGED << ring, spaces, items, queueLen, inflight, closed, 
                               ringClosed, closeCh, dbClosed, blockWrites, 
                               acks, err, result, pushed, popped, applied, 
                               workerDone, closerDone, faults, toggles, n, me, 
                               batch, bi, failAt >>

rd(self) == r_get(self)

(* Allow infinite stuttering to prevent deadlock on termination. *)
Terminating == /\ \A self \in ProcSet: pc[self] = "Done"
               /\ UNCHANGED vars

Next == worker \/ closer \/ toggler
           \/ (\E self \in Writers: w(self))
           \/ (\E self \in Readers: rd(self))
           \/ Terminating

Spec == /\ Init /\ [][Next]_vars
        /\ \A self \in Writers : WF_vars(w(self))
        /\ WF_vars(worker)
        /\ WF_vars(closer)
        /\ WF_vars(toggler)
        /\ \A self \in Readers : WF_vars(rd(self))

Termination == <>(\A self \in ProcSet: pc[self] = "Done")

\* END TRANSLATION

----------------------------------------------------------------------------
(* Safety (M1 a) *)

TypeOK == /\ spaces \in 0..Cap /\ items \in 0..Cap /\ queueLen \in 0..Cap
          /\ inflight \in 0..Cardinality(Writers) /\ Len(ring) <= Cap

\* semaphores and counters agree with the ring
Tokens == /\ items <= queueLen
          /\ queueLen <= PubCount
          /\ spaces + Len(ring) <= Cap

\* FIFO through ring and batch coalescing: requests leave in reservation order and are applied
\* in that order (failed ones dropped)
Fifo == /\ IsPrefix(popped, pushed)
        /\ \E f \in SUBSET Range(popped) : applied = SelectSeq(popped, LAMBDA r : r \notin f)

\* each accepted request is acked exactly once, a rejected one never
AckOnce == \A r \in Reqs : /\ acks[r] <= 1
                           /\ acks[r] = 1 => r \in Range(popped)
                           /\ result[r] \in {"hot", "toobig", "blocked"} => acks[r] = 0 /\ r \notin Range(pushed)
AckedAtEnd == workerDone => \A r \in Range(pushed) : acks[r] = 1

\* a call that reported an error had no effect, a call that reported success was applied exactly once
ResultMatchesEffect ==
    \A r \in Reqs : /\ result[r] = "ok" => Cardinality({j \in DOMAIN applied : applied[j] = r}) = 1
                    /\ result[r] \notin {"ok", "pending"} => r \notin Range(applied)
                    /\ Cardinality({j \in DOMAIN applied : applied[j] = r}) <= 1

\* after Close returned every later writer is refused
ClosedRefuses == closerDone => \A r \in Reqs : r \notin Range(pushed) \/ acks[r] = 1

Safety == TypeOK /\ Tokens /\ Fifo /\ AckOnce /\ AckedAtEnd /\ ResultMatchesEffect /\ ClosedRefuses

----------------------------------------------------------------------------
(* Deadlock freedom (M1 b): the only states without a successor are those in which every call *)
(* has returned (the worker legitimately parks on `items` for ever when nobody closes).       *)
Idle == AllReturned /\ UNCHANGED vars
SpecD == Init /\ [][Next \/ Idle]_vars

(* Liveness (M1 c), checked under Spec (weak fairness of every process), no state constraint. *)
EveryCallReturns == <>AllReturned

\* ghosts do not influence behaviour
View == <<ring, spaces, items, queueLen, inflight, closed, ringClosed, closeCh, dbClosed, blockWrites,
          acks, err, result, workerDone, closerDone, faults, toggles, reads, pc, n, me, batch, bi, failAt,
          pushed, popped, applied>>
=============================================================================
