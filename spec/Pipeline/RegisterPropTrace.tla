------------------------- MODULE RegisterPropTrace -------------------------
(* Property layer for C34: one linearizable register per key.                             *)
(*                                                                                       *)
(* Logged events (recorded by harness/cmd/pipeline around the public API only):          *)
(*   Call(op, t, kind, k, v, res)   before DB.Set / DB.Del / DB.Get is invoked            *)
(*   Ret(op, r)                     after it returned                                     *)
(*   Reset                          start of the next history (fresh DB)                  *)
(* `res` of a Call is the `r` of the same op's Ret ("PENDING" if the call never returned) *)
(* - a purely syntactic join done before validation so that the search can prune; Ret     *)
(* re-checks it against the logged reply.                                                 *)
(*                                                                                       *)
(* Unlogged: the linearization point.  Lin(o) is a silent step composed into Next: an op  *)
(* takes effect at some point between its Call and its Ret.  A write whose Ret reports an *)
(* error (hot-key throttle, too large, closed, I/O fault) never takes effect.  A Get returns the     *)
(* register's value at its linearization point.  A write that never returned may or may   *)
(* not have taken effect.  Every written value is unique, NOTFOUND denotes a deleted or    *)
(* never-written key.                                                                     *)
(*                                                                                       *)
(* Search discipline: linearization points are taken lazily - only when the next trace    *)
(* line is the Ret of an op that still has to take effect (every linearization can be     *)
(* rearranged into that form, because only Ret lines constrain the order).  The spec      *)
(* branches, so acceptance is by high-water mark of consumed lines (TLC register 1,       *)
(* `-workers 1`, depth-first state queue), not by diameter.                               *)
EXTENDS Integers, Sequences, FiniteSets, TLC, Json, IOUtils

Trace == ndJsonDeserialize(IOEnv.TRACE)

NOTFOUND == "NOTFOUND"
PENDING  == "PENDING"
ANY      == "ANY"          \* reply of a Get issued on a closing/closed DB: not constrained by C34
OK       == "ok"
WriteErrors == {"hot", "toobig", "blocked", "ioerr"}   \* ioerr: an I/O fault injected by the driver
Writes   == {"Set", "Del"}

VARIABLES l,        \* next trace line to explain
          reg,      \* [key -> value token]; absent key = NOTFOUND
          pend      \* [op id -> [kind, k, v, res, lin]] calls that have not returned yet
vars == <<l, reg, pend>>

Empty == [x \in {} |-> 0]
Upd(m, key, val) == [x \in (DOMAIN m) \cup {key} |-> IF x = key THEN val ELSE m[x]]
Without(m, key) == [x \in (DOMAIN m) \ {key} |-> m[x]]
Val(k) == IF k \in DOMAIN reg THEN reg[k] ELSE NOTFOUND

ev == Trace[l]
Mark(n) == TLCSet(1, IF TLCGet(1) > n THEN TLCGet(1) ELSE n)
\* Mark is the LAST conjunct of every consuming action: TLC evaluates conjuncts left to right, so the
\* register only advances when the whole step is possible
IsEvent(name) == l <= Len(Trace) /\ ev.e = name /\ l' = l + 1

Init == l = 1 /\ reg = Empty /\ pend = Empty /\ TLCSet(1, 1)

Reset == IsEvent("Reset") /\ reg' = Empty /\ pend' = Empty /\ Mark(l + 1)

Call == /\ IsEvent("Call")
        /\ ev.op \notin DOMAIN pend
        /\ ev.kind \in Writes \cup {"Get"}
        /\ pend' = Upd(pend, ev.op, [kind |-> ev.kind, k |-> ev.k, v |-> ev.v, res |-> ev.res, lin |-> FALSE])
        /\ UNCHANGED reg
        /\ Mark(l + 1)

\* must this op take effect before its Ret line can be consumed?
NeedsLin(o) == /\ o \in DOMAIN pend /\ ~pend[o].lin
               /\ IF pend[o].kind \in Writes THEN pend[o].res = OK ELSE pend[o].res # ANY

\* may this pending op take effect now?
CanLin(o) == /\ ~pend[o].lin
             /\ IF pend[o].kind \in Writes
                  THEN pend[o].res \in {OK, PENDING}              \* a write reporting an error never takes effect
                  ELSE pend[o].res \notin {ANY, PENDING} /\ pend[o].res = Val(pend[o].k)

Lin(o) == /\ l <= Len(Trace) /\ ev.e = "Ret" /\ NeedsLin(ev.op)
          /\ CanLin(o)
          /\ reg' = CASE pend[o].kind = "Set" -> Upd(reg, pend[o].k, pend[o].v)
                      [] pend[o].kind = "Del" -> Upd(reg, pend[o].k, NOTFOUND)
                      [] OTHER -> reg
          /\ pend' = [pend EXCEPT ![o].lin = TRUE]
          /\ UNCHANGED l

Ret == /\ IsEvent("Ret")
       /\ ev.op \in DOMAIN pend
       /\ LET p == pend[ev.op] IN
            /\ ev.r = p.res
            /\ IF p.kind \in Writes
                 THEN \/ ev.r = OK /\ p.lin                    \* took effect exactly once, between Call and Ret
                      \/ ev.r \in WriteErrors /\ ~p.lin        \* reported an error: no effect
                 ELSE \/ ev.r = ANY
                      \/ ev.r # ANY /\ p.lin                   \* value was read at the linearization point
       /\ pend' = Without(pend, ev.op)
       /\ UNCHANGED reg
       /\ Mark(l + 1)

Next == Reset \/ Call \/ Ret \/ \E o \in DOMAIN pend : Lin(o)
Spec == Init /\ [][Next]_vars

TraceAccepted ==
    LET hw == TLCGet(1)
    IN PrintT(<<"TRACE_HW", hw - 1, Len(Trace)>>) /\ hw - 1 = Len(Trace)
=============================================================================
