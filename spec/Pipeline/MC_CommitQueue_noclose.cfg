SPECIFICATION SpecD
CONSTANTS
 Writers = {"w1", "w2"}
 OpsPerWriter = 2
 Readers = {"r"}
 ReaderOps = 1
 Cap = 2
 MaxBatch = 2
 MaxFaults = 1
 MaxToggles = 2
 DoClose = FALSE
 ReleaseThrottle = TRUE
 Deviations = {}
INVARIANT Safety
CHECK_DEADLOCK TRUE
