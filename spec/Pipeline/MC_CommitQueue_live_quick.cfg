SPECIFICATION Spec
CONSTANTS
 Writers = {"w1", "w2"}
 OpsPerWriter = 1
 Readers = {}
 ReaderOps = 1
 Cap = 2
 MaxBatch = 2
 MaxFaults = 0
 MaxToggles = 1
 DoClose = TRUE
 ReleaseThrottle = FALSE
 Deviations = {}
PROPERTY EveryCallReturns
CHECK_DEADLOCK FALSE
