SPECIFICATION Spec
CONSTANTS
 Alphabet = {0, 3, 4, 5, 6, 7, 8, 9, 10, 11, 12, 13, 14, 15, 16, 17, 18, 19, 20, 21, 22, 23, 24, 97, 254, 255}
 MinLen = 1
 MaxLen = 1
 CFs = {0}
 Vers = {1}
 ProbeVers = {0, 1, 2}
 MaxIns = 70
 CheckOrder = FALSE
INVARIANTS EmitCase
CHECK_DEADLOCK FALSE
