----------------------------- MODULE MemIndex -----------------------------
(* C07 reference model + case generator: the memtable index (utils.Skiplist, utils.ART)     *)
(* is an ordered map over internal keys with linearizable overwrite.                       *)
(*                                                                                         *)
(* Behaviours of this spec are insert sequences over a small key universe (user keys over  *)
(* a byte alphabet chosen to hit prefix relations and the padding byte 0x00, several       *)
(* versions per user key).  TLC enumerates them exhaustively (or samples a larger          *)
(* universe with -simulate) and prints each complete sequence as a CASE; the driver        *)
(* replays every case into both real engines.  While enumerating, TLC checks the           *)
(* definitions below against each other (M1): the sorted view, the two statements of       *)
(* Search, seeks in both directions, and the design-level reason for the recorded ART      *)
(* finding (radix order on the raw encoding differs from the internal-key order exactly    *)
(* when the set holds two prefix-related user keys).                                       *)
EXTENDS Integers, Sequences, FiniteSets, TLC, Json, SequencesExt, KeyOrder

CONSTANTS Alphabet,    \* byte values user keys are built from
          MinLen, MaxLen, \* user-key lengths (MinLen = MaxLen gives prefix-free universes)
          CFs,         \* column family ids
          Vers,        \* versions of inserted keys
          ProbeVers,   \* versions of probes (superset of Vers: also versions between/below)
          MaxIns,      \* inserts per case
          CheckOrder   \* TRUE: check the order/encoding lemmas over the whole universe at startup

UserKeys == UNION {[1..n -> Alphabet] : n \in MinLen..MaxLen}
Keys     == [cf : CFs, k : UserKeys, ver : Vers]
Probes   == [cf : CFs, k : UserKeys, ver : ProbeVers]

VARIABLES map,    \* [internal key -> number of the insert that wrote it last]
          sorted, \* the keys of map in internal-key order, maintained by binary-search insertion
          hist    \* the insert sequence (the generated case)
vars == <<map, sorted, hist>>

Upd(m, x, v) == [y \in (DOMAIN m) \cup {x} |-> IF y = x THEN v ELSE m[y]]

Init == map = [y \in {} |-> 0] /\ sorted = <<>> /\ hist = <<>>

\* linearizable overwrite: the last insert of an internal key wins
Insert(x) == /\ Len(hist) < MaxIns
             /\ hist' = Append(hist, x)
             /\ map'  = Upd(map, x, Len(hist) + 1)
             /\ sorted' = SortedInsert(sorted, x)

Next == \E x \in Keys : Insert(x)
Spec == Init /\ [][Next]_vars

-----------------------------------------------------------------------------
\* The operations, as definitions on the map (0 = no entry).
Sorted(m) == SetToSortSeq(DOMAIN m, KeyLess)

\* Search(probe) as the engines implement it and memTable.Get uses it: the first entry >= probe,
\* a hit only if that entry has the probe's column family and user key
Search(m, p) ==
    LET ge == SelectSeq(Sorted(m), LAMBDA x : KeyLeq(p, x))
    IN IF ge # <<>> /\ SameUser(ge[1], p) THEN m[ge[1]] ELSE 0

\* the same as MVCC visibility: the entry of that user key with the greatest version <= probe version
SearchVisible(m, p) ==
    LET c == {x \in DOMAIN m : SameUser(x, p) /\ x.ver <= p.ver}
    IN IF c = {} THEN 0 ELSE m[CHOOSE x \in c : \A y \in c : y.ver <= x.ver]

\* iterator positioned by Seek(t): ascending = entries >= t in order; descending = entries <= t in reverse order
SeekAsc(m, t)  == SelectSeq(Sorted(m), LAMBDA x : KeyLeq(t, x))
SeekDesc(m, t) == Reverse(SelectSeq(Sorted(m), LAMBDA x : KeyLeq(x, t)))

-----------------------------------------------------------------------------
\* M1: the definitions are coherent on every reachable map
TypeOK == /\ DOMAIN map \subseteq Keys
          /\ \A x \in DOMAIN map : map[x] \in 1..Len(hist) /\ hist[map[x]] = x
          /\ \A i \in 1..Len(hist) : map[hist[i]] >= i

SortedOK == LET s == Sorted(map)
            IN /\ s = sorted          \* the incrementally maintained sequence is the sorted view
               /\ Len(s) = Cardinality(DOMAIN map)
               /\ \A i \in 1..Len(s) : s[i] \in DOMAIN map
               /\ \A i \in 1..(Len(s) - 1) : KeyLess(s[i], s[i + 1])

\* ... and the binary-search formulation used by the trace specification (KeyOrder!LowerBound)
SearchIdx(p) == LET i == LowerBound(sorted, p)
                IN IF i <= Len(sorted) /\ SameUser(sorted[i], p) THEN map[sorted[i]] ELSE 0

SearchOK == \A p \in Probes : Search(map, p) = SearchVisible(map, p) /\ SearchIdx(p) = Search(map, p)

SeekOK == \A t \in Probes :
            LET a == SeekAsc(map, t)  d == SeekDesc(map, t)
            IN /\ Len(a) + Len(d) = Cardinality(DOMAIN map) + (IF t \in DOMAIN map THEN 1 ELSE 0)
               /\ (a # <<>> => KeyLeq(t, a[1]))
               /\ (d # <<>> => KeyLeq(d[1], t))
               /\ a = FromAsc(sorted, t, 0) /\ d = FromDesc(sorted, t, 0)
               /\ \A lim \in 1..2 : /\ FromAsc(sorted, t, lim) = SubSeq(a, 1, Min2(lim, Len(a)))
                                    /\ FromDesc(sorted, t, lim) = SubSeq(d, 1, Min2(lim, Len(d)))

\* design-level statement of the recorded finding C07-art-prefix-order: a radix tree that branches on
\* the raw bytes of the encoded key visits leaves in internal-key order unless two user keys of the
\* map are prefix-related (MC_MemIndex_asis.cfg checks RadixOK alone and is expected to fail)
RadixOK == \A x, y \in DOMAIN map : RadixAgrees(x, y)
HasPrefixPair == \E x, y \in DOMAIN map : PrefixPair(x, y)
RadixOKOrWitness == RadixOK \/ HasPrefixPair

\* the order is a strict total order on the universe and kv.InternalKey + utils.CompareKeys realise it
ASSUME CheckOrder => \A x, y \in Keys \cup Probes :
          /\ (x = y) <=> (~KeyLess(x, y) /\ ~KeyLess(y, x))
          /\ ~(KeyLess(x, y) /\ KeyLess(y, x))
          /\ CompareKeysLess(Enc(x), Enc(y)) <=> KeyLess(x, y)

\* generation: every complete insert sequence is printed once
EmitCase == (Len(hist) = MaxIns) => PrintT(<<"CASE", ToJson(hist)>>)
=============================================================================
