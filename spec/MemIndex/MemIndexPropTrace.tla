------------------------- MODULE MemIndexPropTrace -------------------------
(* Property layer for C07: one engine's recorded answers must equal the ordered map's.     *)
(* A trace is what ONE engine (skiplist or ART, field "eng" is carried for reporting only)  *)
(* answered after a sequence of inserts; both engines are validated against the same       *)
(* specification, hence they agree with each other wherever the answer is unique.          *)
(*                                                                                         *)
(* ref maps every inserted internal key to the SET of values it may hold: one value after  *)
(* sequential inserts (last writer wins); after a phase of concurrent inserts, any thread's *)
(* last value for that key (program order within a thread is kept, threads are unordered). *)
(* Values are unique per insert, so an answer identifies the insert it came from.          *)
EXTENDS Integers, Sequences, FiniteSets, TLC, Json, IOUtils, SequencesExt, KeyOrder

Trace == ndJsonDeserialize(IOEnv.TRACE)

NONE == ""          \* Search reply when there is no entry (engines return an empty ValueStruct)

VARIABLES l,        \* next trace line to explain
          ref,      \* [internal key -> set of allowed values]
          cur,      \* current concurrent phase: [internal key -> [thread -> its last value]]
          sorted    \* DOMAIN ref as a sequence in internal-key order (KeyOrder!SortedInsert; checked against
                    \* the declarative sort by TLC in MemIndex.tla)
vars == <<l, ref, cur, sorted>>

Empty == [x \in {} |-> {}]
Upd(m, x, v) == (x :> v) @@ m        \* explicit function (TLC evaluates @@ eagerly)
K(r) == [cf |-> r.cf, k |-> r.k, ver |-> r.ver]
Rng(f) == {f[x] : x \in DOMAIN f}

Init == l = 1 /\ ref = Empty /\ cur = Empty /\ sorted = <<>>

ev == Trace[l]
IsEvent(name) == l <= Len(Trace) /\ ev.e = name /\ l' = l + 1
Report(want) == PrintT(<<"MISMATCH", l, ToJson(want)>>)

Reset == IsEvent("Reset") /\ ref' = Empty /\ cur' = Empty /\ sorted' = <<>>

\* sequential insert: linearizable overwrite
Insert == /\ IsEvent("Insert")
          /\ ref' = Upd(ref, K(ev), {ev.val})
          /\ sorted' = SortedInsert(sorted, K(ev))
          /\ cur' = Empty

\* insert issued by thread ev.t while other threads insert concurrently
CInsert == /\ IsEvent("CInsert")
           /\ LET x == K(ev)
                  mine == Upd(IF x \in DOMAIN cur THEN cur[x] ELSE [t \in {} |-> ""], ev.t, ev.val)
              IN cur' = Upd(cur, x, mine) /\ ref' = Upd(ref, x, Rng(mine)) /\ sorted' = SortedInsert(sorted, x)

-----------------------------------------------------------------------------
\* allowed replies of Search(p): the first entry >= p if it has p's column family and user key
\* (= the entry of that user key with the greatest version <= p.ver, MemIndex.tla SearchOK)
SearchWant(p) ==
    LET i == LowerBound(sorted, p)
    IN IF i <= Len(sorted) /\ SameUser(sorted[i], p) THEN ref[sorted[i]] ELSE {NONE}

\* ev.ps = probes, ev.rs = replies (same length)
Search == /\ IsEvent("Search")
          /\ LET want == [i \in 1..Len(ev.ps) |-> SearchWant(ev.ps[i])]
                 ok   == Len(ev.rs) = Len(ev.ps) /\ \A i \in 1..Len(ev.ps) : ev.rs[i] \in want[i]
             IN ok \/ (~ok /\ Report(want))
          /\ UNCHANGED <<ref, cur, sorted>>

\* out = entries [cf, k, ver, val] the real iterator yielded; wantKeys = the keys it must yield, in order
OutOK(out, wantKeys) ==
    /\ [i \in 1..Len(out) |-> K(out[i])] = wantKeys
    /\ \A i \in 1..Len(out) : out[i].val \in ref[K(out[i])]

\* full iteration after Rewind: every entry, ascending / descending internal-key order
Iter == /\ IsEvent("Iter")
        /\ LET want == IF ev.asc THEN sorted ELSE Reverse(sorted)
               ok   == OutOK(ev.out, want)
           IN ok \/ (~ok /\ Report(want))
        /\ UNCHANGED <<ref, cur, sorted>>

\* ev.ts = seek targets, ev.outs[i] = what the iterator yielded after Seek(ts[i]) (at most ev.lim entries if lim > 0):
\* ascending = the entries >= target in order, descending = the entries <= target in reverse order
Seek == /\ IsEvent("Seek")
        /\ LET want == [i \in 1..Len(ev.ts) |-> IF ev.asc THEN FromAsc(sorted, K(ev.ts[i]), ev.lim)
                                                            ELSE FromDesc(sorted, K(ev.ts[i]), ev.lim)]
               ok   == Len(ev.outs) = Len(ev.ts) /\ \A i \in 1..Len(ev.ts) : OutOK(ev.outs[i], want[i])
           IN ok \/ (~ok /\ Report(want))
        /\ UNCHANGED <<ref, cur, sorted>>

Next == Reset \/ Insert \/ CInsert \/ Search \/ Iter \/ Seek
Spec == Init /\ [][Next]_vars

TraceAccepted ==
    LET d == TLCGet("stats").diameter
    IN PrintT(<<"TRACE_HW", d - 1, Len(Trace)>>) /\ d - 1 = Len(Trace)
=============================================================================
