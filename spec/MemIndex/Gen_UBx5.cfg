SPECIFICATION Spec
CONSTANTS
 Alphabet = {0, 97, 255}
 MinLen = 0
 MaxLen = 3
 CFs = {0, 1}
 Vers = {1, 2, 1000000}
 ProbeVers = {0, 1, 2, 3, 1000000}
 MaxIns = 5
 CheckOrder = FALSE
INVARIANTS EmitCase
CHECK_DEADLOCK FALSE
