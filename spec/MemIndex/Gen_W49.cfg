SPECIFICATION Spec
CONSTANTS
 Alphabet = {0, 3, 4, 5, 6, 7, 8, 9, 10, 11, 12, 13, 14, 15, 16, 17, 18, 19, 20, 21, 22, 23, 24, 25, 26, 27, 28, 29, 30, 31, 32, 33, 34, 35, 36, 37, 38, 39, 40, 41, 42, 43, 44, 45, 46, 47, 48, 49, 50, 51, 52, 53, 54, 55, 56, 57, 58, 59, 60, 61, 62, 97, 254, 255}
 MinLen = 1
 MaxLen = 1
 CFs = {0}
 Vers = {1}
 ProbeVers = {0, 1, 2}
 MaxIns = 200
 CheckOrder = FALSE
INVARIANTS EmitCase
CHECK_DEADLOCK FALSE
