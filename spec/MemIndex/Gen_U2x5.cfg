SPECIFICATION Spec
CONSTANTS
 Alphabet = {0, 97}
 MinLen = 0
 MaxLen = 2
 CFs = {0}
 Vers = {1}
 ProbeVers = {0, 1, 2}
 MaxIns = 5
 CheckOrder = FALSE
INVARIANTS EmitCase
CHECK_DEADLOCK FALSE
