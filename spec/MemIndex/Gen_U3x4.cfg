SPECIFICATION Spec
CONSTANTS
 Alphabet = {97}
 MinLen = 0
 MaxLen = 1
 CFs = {0, 1}
 Vers = {1, 2, 1000000}
 ProbeVers = {0, 1, 2, 3, 1000000}
 MaxIns = 4
 CheckOrder = FALSE
INVARIANTS EmitCase
CHECK_DEADLOCK FALSE
