SPECIFICATION Spec
CONSTANTS
 Alphabet = {0, 97, 255}
 MinLen = 0
 MaxLen = 2
 CFs = {0}
 Vers = {1, 1000000}
 ProbeVers = {0, 1, 2, 1000000}
 MaxIns = 2
 CheckOrder = TRUE
INVARIANTS TypeOK SortedOK SearchOK SeekOK RadixOKOrWitness
CHECK_DEADLOCK FALSE
