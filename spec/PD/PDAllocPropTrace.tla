-------------------------- MODULE PDAllocPropTrace --------------------------
(* Property layer for C27: timestamps and ids handed out by PD are unique and strictly   *)
(* increasing in allocation order, also across restarts.                                 *)
(*                                                                                       *)
(* Events (one per line of a trace recorded from the real pd/server.Service):            *)
(*   Call   {t, kind, n}            request t begins                                     *)
(*   Reply  {t, kind, first, n, ok} its response: values first..first+n-1 are handed out *)
(*   Restart                        the process died and restarted from its files        *)
(* A value counts as handed out only when its reply was delivered.  "Increasing in       *)
(* allocation order": a request that begins after another one's reply was delivered gets *)
(* greater values.  Nothing here refers to counters, checkpoints or locks.               *)
EXTENDS Integers, Sequences, FiniteSets, TLC, Json, IOUtils

Trace == ndJsonDeserialize(IOEnv.TRACE)

VARIABLES l,       \* next trace line to explain
          out,     \* set of <<kind, value>> handed out so far (never reset by Restart)
          calls    \* [request id -> [kind, n, floor]] of requests in flight
vars == <<l, out, calls>>

MaxOut(k) == LET s == {x[2] : x \in {y \in out : y[1] = k}}
             IN IF s = {} THEN 0 ELSE CHOOSE m \in s : \A u \in s : u <= m
Range(k, first, n) == {<<k, v>> : v \in first..(first + n - 1)}
Upd(m, key, val) == [x \in (DOMAIN m) \cup {key} |-> IF x = key THEN val ELSE m[x]]
Empty == [x \in {} |-> 0]

Init == l = 1 /\ out = {} /\ calls = Empty

ev == Trace[l]
Expect(got, want) == got = want \/ (got # want /\ PrintT(<<"MISMATCH", l, want>>))
IsEvent(name) == l <= Len(Trace) /\ ev.e = name /\ l' = l + 1

Reset == IsEvent("Reset") /\ out' = {} /\ calls' = Empty

Call == /\ IsEvent("Call")
        /\ calls' = Upd(calls, ev.t, [kind |-> ev.kind, n |-> ev.n, floor |-> MaxOut(ev.kind)])
        /\ UNCHANGED out

\* a failed request hands out nothing; a successful one hands out exactly the n values asked for,
\* none of them handed out before, all above everything handed out before the request began
Reply == /\ IsEvent("Reply")
         /\ ev.t \in DOMAIN calls
         /\ IF ev.ok
            THEN /\ Expect(<<ev.kind, ev.n>>, <<calls[ev.t].kind, calls[ev.t].n>>)
                 /\ Expect(Range(ev.kind, ev.first, ev.n) \cap out, {})
                 /\ Expect(ev.first > calls[ev.t].floor, TRUE)
                 /\ out' = out \cup Range(ev.kind, ev.first, ev.n)
            ELSE UNCHANGED out
         /\ calls' = [x \in DOMAIN calls \ {ev.t} |-> calls[x]]

\* requests in flight at the crash never get a reply
Restart == IsEvent("Restart") /\ calls' = Empty /\ UNCHANGED out

Next == Reset \/ Call \/ Reply \/ Restart
Spec == Init /\ [][Next]_vars

TraceAccepted ==
    LET d == TLCGet("stats").diameter
    IN PrintT(<<"TRACE_HW", d - 1, Len(Trace)>>) /\ d - 1 = Len(Trace)
=============================================================================
