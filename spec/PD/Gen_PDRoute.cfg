SPECIFICATION GenSpec
CONSTANTS
 Ids = {1,2,3}
 Starts = {0,2,4,6}
 Ends = {2,4,6,100}
 Vers = {1,2,3}
 Confs = {1,2}
 LookupKeys = {}
 Degenerate = TRUE
 Deviations = {}
 MaxHist = 12
INVARIANT EmitHist
CHECK_DEADLOCK FALSE
