-------------------------- MODULE PDRoutePropTrace --------------------------
(* Property layer for C26.  Reference = the set of regions PD accepted and did not       *)
(* remove.  Keys are positions on a line (the check maps the byte strings of the trace   *)
(* order-preservingly to integers; 100 = empty end key = unbounded); a region's range is *)
(* the set of keys s <= k < e.                                                           *)
(*   Heartbeat {id,s,en,ver,conf,ok}  accepted only if not epoch-stale w.r.t. the known   *)
(*                                   region of the same id and sharing no key with       *)
(*                                   another known region                                *)
(*   Remove {id, removed}            removes the region if known                         *)
(*   Lookup {k, found, rid,rs,re,rver,rconf}  exactly the known region containing k,     *)
(*                                   or nothing                                          *)
(*   Restart {ok}                    the catalog is unchanged                            *)
EXTENDS Integers, Sequences, FiniteSets, TLC, Json, IOUtils

Trace == ndJsonDeserialize(IOEnv.TRACE)
INF == 100

VARIABLES l, cat      \* cat: [known region id -> [s, e, ver, conf]]
vars == <<l, cat>>

Empty == [x \in {} |-> 0]
Upd(m, key, val) == [x \in (DOMAIN m) \cup {key} |-> IF x = key THEN val ELSE m[x]]
Del(m, key) == [x \in (DOMAIN m) \ {key} |-> m[x]]

Contains(r, k) == r.s <= k /\ k < r.e
Shares(a, b) == a.s < b.e /\ b.s < a.e /\ a.s < a.e /\ b.s < b.e       \* the two ranges have a common key
Stale(m, cur) == m.ver < cur.ver \/ (m.ver = cur.ver /\ m.conf < cur.conf)

Init == l = 1 /\ cat = Empty
ev == Trace[l]
Expect(got, want) == got = want \/ (got # want /\ PrintT(<<"MISMATCH", l, want>>))
IsEvent(name) == l <= Len(Trace) /\ ev.e = name /\ l' = l + 1

Reset == IsEvent("Reset") /\ cat' = Empty

Heartbeat ==
    /\ IsEvent("Heartbeat")
    /\ LET m == [s |-> ev.s, e |-> ev.en, ver |-> ev.ver, conf |-> ev.conf]
           stale == ev.id \in DOMAIN cat /\ Stale(m, cat[ev.id])
           clash == {i \in DOMAIN cat \ {ev.id} : Shares(m, cat[i])}
       IN IF ev.ok
          THEN /\ Expect(<<stale, clash>>, <<FALSE, {}>>)      \* accepted only if fresh and disjoint
               /\ cat' = Upd(cat, ev.id, m)
          ELSE UNCHANGED cat                                   \* a rejected heartbeat changes nothing

Remove ==
    /\ IsEvent("Remove")
    /\ Expect(ev.removed, ev.id \in DOMAIN cat)
    /\ cat' = Del(cat, ev.id)

Lookup ==
    /\ IsEvent("Lookup")
    /\ LET holders == {i \in DOMAIN cat : Contains(cat[i], ev.k)}
           reply == IF ev.found THEN <<ev.rid, ev.rs, ev.re, ev.rver, ev.rconf>> ELSE <<>>
           want  == IF holders = {} THEN {<<>>}
                    ELSE {<<i, cat[i].s, cat[i].e, cat[i].ver, cat[i].conf>> : i \in holders}
       IN reply \in want \/ (reply \notin want /\ PrintT(<<"MISMATCH", l, want>>))
    /\ UNCHANGED cat

Restart == IsEvent("Restart") /\ Expect(ev.ok, TRUE) /\ UNCHANGED cat

Next == Reset \/ Heartbeat \/ Remove \/ Lookup \/ Restart
Spec == Init /\ [][Next]_vars

TraceAccepted ==
    LET d == TLCGet("stats").diameter
    IN PrintT(<<"TRACE_HW", d - 1, Len(Trace)>>) /\ d - 1 = Len(Trace)
=============================================================================
