------------------------------ MODULE PDRoute ------------------------------
(* Implementation-shaped specification of PD-lite's region catalog (C26).                *)
(* Code: pd/core/cluster.go (UpsertRegionHeartbeat, isEpochStale, rangesOverlap,         *)
(* findOverlapLocked, RemoveRegion, rebuildRegionIndexLocked, GetRegionByKey),           *)
(* pd/server/service.go (RegionHeartbeat, RemoveRegion, GetRegionByKey),                 *)
(* pd/storage/local.go (SaveRegion/DeleteRegion -> manifest edits, Load),                *)
(* cmd/nokv/pd.go (restorePDRegions).                                                    *)
(*                                                                                       *)
(* Keys are positions on a line: 0 is the empty key (also "unbounded" as a start key),   *)
(* INF stands for the empty end key (unbounded).  A region is [s, e).                    *)
(* Variables are the code's: the region map, the sorted range index, the persisted       *)
(* catalog.  The reference ("the unique known region whose range contains the key") is   *)
(* computed from the region map alone.                                                   *)
EXTENDS Integers, Sequences, FiniteSets, TLC, Json

CONSTANTS Ids,        \* region ids
          Starts,     \* start positions (0 = empty start key)
          Ends,       \* end positions (INF = empty end key)
          Vers, Confs,\* epoch components
          LookupKeys, \* keys looked up by the invariants
          Degenerate, \* TRUE: heartbeats with s >= e are part of the input space
          Deviations, \* subset of {"EmptyRangeAccepted"} (the tree before the fix: commit)
          MaxHist

INF == 100
None == [id |-> 0]

VARIABLES regions,   \* [Ids -> region record or None]      (Cluster.regions)
          index,     \* sequence of [id, s, e] sorted by (s, id)   (Cluster.regionIndex)
          disk,      \* [Ids -> region record or None]      (manifest region edits, replayed)
          hist, taint
vars == <<regions, index, disk, hist, taint>>

Metas == {[id |-> i, s |-> s, e |-> e, ver |-> v, conf |-> c] :
            i \in Ids, s \in Starts, e \in Ends, v \in Vers, c \in Confs}
Inputs == IF Degenerate THEN Metas ELSE {m \in Metas : m.s < m.e}

Known == {i \in Ids : regions[i] # None}

\* ---- the code's predicates ------------------------------------------------------------
\* isEpochStale(incoming, current)
Stale(m, cur) == m.ver < cur.ver \/ (m.ver = cur.ver /\ m.conf < cur.conf)
\* rangesOverlap(a, b): "a ends at or before b starts" / "b ends at or before a starts", an
\* empty end key never ends
CodeOverlap(a, b) == ~(a.e # INF /\ a.e <= b.s) /\ ~(b.e # INF /\ b.e <= a.s)

\* rebuildRegionIndexLocked: all known regions sorted by (start, id)
Before(a, b) == a.s < b.s \/ (a.s = b.s /\ a.id < b.id)
SortedIndex(rs) ==
    LET known == {i \in Ids : rs[i] # None}
        n == Cardinality(known)
        rank(i) == Cardinality({j \in known : Before(rs[j], rs[i])}) + 1
    IN [p \in 1..n |-> LET i == CHOOSE i \in known : rank(i) = p
                       IN [id |-> i, s |-> rs[i].s, e |-> rs[i].e]]

\* GetRegionByKey: binary search for the first entry whose start is greater than the key, take
\* the entry before it, check its bounds
CodeLookup(k) ==
    LET idx == IF \E p \in 1..Len(index) : index[p].s > k
               THEN (CHOOSE p \in 1..Len(index) : index[p].s > k /\ \A q \in 1..(p - 1) : ~(index[q].s > k)) - 1
               ELSE Len(index)
    IN IF idx = 0 THEN None
       ELSE LET en == index[idx]
            IN IF k < en.s THEN None
               ELSE IF en.e # INF /\ k >= en.e THEN None
               ELSE regions[en.id]

\* ---- the reference ------------------------------------------------------------------
Contains(r, k) == r.s <= k /\ (r.e = INF \/ k < r.e)
Holders(k) == {i \in Known : Contains(regions[i], k)}
RefLookup(k) == IF Holders(k) = {} THEN None ELSE regions[CHOOSE i \in Holders(k) : TRUE]
\* two regions share a key
SetOverlap(a, b) == a.s < b.e /\ b.s < a.e /\ a.s < a.e /\ b.s < b.e

\* ---- actions ------------------------------------------------------------------------
Log(rec) == hist' = IF Len(hist) < MaxHist THEN Append(hist, rec) ELSE hist

Init == /\ regions = [i \in Ids |-> None] /\ index = <<>> /\ disk = [i \in Ids |-> None]
        /\ hist = <<>> /\ taint = FALSE

\* an empty or inverted range is refused (ErrInvalidRegionRange) since the fix: commit
ValidRange(m) == m.s < m.e \/ "EmptyRangeAccepted" \in Deviations

Accepts(m) == /\ ValidRange(m)
              /\ (regions[m.id] # None => ~Stale(m, regions[m.id]))
              /\ \A j \in Known \ {m.id} : ~CodeOverlap(m, regions[j])

Heartbeat(m) ==
    /\ Log([op |-> "Heartbeat", id |-> m.id, s |-> m.s, e |-> m.e, ver |-> m.ver, conf |-> m.conf])
    /\ IF Accepts(m)
       THEN /\ regions' = [regions EXCEPT ![m.id] = m]
            /\ index' = SortedIndex(regions')
            /\ disk' = [disk EXCEPT ![m.id] = m]
            /\ taint' = (taint \/ m.s >= m.e)
       ELSE UNCHANGED <<regions, index, disk, taint>>

Remove(i) ==
    /\ Log([op |-> "Remove", id |-> i])
    /\ regions' = [regions EXCEPT ![i] = None]
    /\ index' = SortedIndex(regions')
    /\ disk' = [disk EXCEPT ![i] = None]
    /\ UNCHANGED taint

\* restart: a new cluster is filled from the persisted catalog in ascending id order through
\* the same heartbeat path (restorePDRegions)
RECURSIVE Restore(_, _)
Restore(rs, todo) ==
    IF todo = {} THEN rs
    ELSE LET i == CHOOSE i \in todo : \A j \in todo : i <= j
             m == disk[i]
             ok == ValidRange(m) /\ \A j \in {j \in Ids : rs[j] # None} \ {i} : ~CodeOverlap(m, rs[j])
         IN Restore(IF ok THEN [rs EXCEPT ![i] = m] ELSE rs, todo \ {i})

Restart ==
    /\ Log([op |-> "Restart"])
    /\ regions' = Restore([i \in Ids |-> None], {i \in Ids : disk[i] # None})
    /\ index' = SortedIndex(regions')
    /\ UNCHANGED <<disk, taint>>

Next == (\E m \in Inputs : Heartbeat(m)) \/ (\E i \in Ids : Remove(i)) \/ Restart
Spec == Init /\ [][Next]_vars

\* behaviour generation (tlc -simulate): the same actions, chosen with weights (a uniform choice
\* among all successors would almost always pick one of the many rejected heartbeats): 5/10 a
\* heartbeat the catalog accepts, 1/4 an arbitrary heartbeat, 1/8 a removal, 1/8 a restart (TLC
\* re-evaluates RandomElement at every occurrence, so each test below is an independent coin; a named
\* zero-argument definition would be evaluated once and cached).
\* Every generated behaviour ends with a restart and stops when the history is full.
GenNext == LET acc == {m \in Inputs : Accepts(m)}
           IN IF Len(hist) >= MaxHist THEN FALSE
              ELSE IF Len(hist) = MaxHist - 1 THEN Restart
              ELSE IF RandomElement(1..2) = 1 /\ acc # {} THEN Heartbeat(RandomElement(acc))
              ELSE IF RandomElement(1..2) = 1 THEN Heartbeat(RandomElement(Inputs))
              ELSE IF RandomElement(1..2) = 1 THEN Remove(RandomElement(Ids))
              ELSE Restart
GenSpec == Init /\ [][GenNext]_vars

\* ---- properties ---------------------------------------------------------------------
TypeOK == \A i \in Ids : regions[i] = None \/ regions[i].id = i
\* accepted heartbeats keep the known ranges disjoint
Disjoint == \A i, j \in Known : i # j => ~SetOverlap(regions[i], regions[j])
\* a lookup returns exactly the known region containing the key, or nothing
LookupCorrect == \A k \in LookupKeys : CodeLookup(k) = RefLookup(k)
\* Under the deviation EmptyRangeAccepted this fails exactly after a heartbeat with an empty range
\* (s >= e) was accepted: such an entry sits in the sorted index and can hide the region that really
\* contains the key (taint = witness predicate of the deviation; never set in the repaired design)
LookupCorrectOrTainted == taint \/ LookupCorrect
\* the persisted catalog is the in-memory catalog, and a restart reproduces it
DiskInSync == disk = regions
RestartIdentical == Restore([i \in Ids |-> None], {i \in Ids : disk[i] # None}) = regions

EmitHist == (Len(hist) = MaxHist) => PrintT(<<"SCHED", ToJson(hist)>>)
View == <<regions, index, disk, taint>>
=============================================================================
