------------------------------ MODULE PDAlloc ------------------------------
(* Implementation-shaped specification of PD-lite's TSO / ID allocation with its         *)
(* checkpoint file (C27).  Code: pd/server/service.go (Tso, AllocID,                     *)
(* persistAllocatorState), pd/tso/allocator.go, pd/core/id_allocator.go,                 *)
(* pd/storage/local.go (SaveAllocatorState: stateMu, tmp file + rename),                 *)
(* pd/storage/storage.go (ResolveAllocatorStarts), cmd/nokv/pd.go (restart).             *)
(*                                                                                       *)
(* One label per critical section of a request:                                          *)
(*   Reserve   atomic add on the request's counter                                       *)
(*   LockA     (repaired design only) take the service's allocator-persist mutex         *)
(*   ReadId, ReadTs   the two counter loads of persistAllocatorState                     *)
(*   WriteTmp  take stateMu, write PD_STATE.json.tmp                                     *)
(*   Rename    rename over PD_STATE.json, release the mutex(es)                          *)
(*   Reply     the response leaves the server: the values are handed out                 *)
(* A request in `fails` gets an error from the storage layer instead of WriteTmp/Rename  *)
(* and is answered with an error (its reserved values are never handed out).             *)
(* The process can crash at any point and restarts from the checkpoint file.             *)
(*                                                                                       *)
(* Deviation "CheckpointOutsideLock" (the tree before the fix: commit): the counters are *)
(* loaded outside any lock, so an older snapshot can overwrite a newer checkpoint.       *)
EXTENDS Integers, Sequences, FiniteSets, TLC, Json

CONSTANTS Reqs,        \* request ids of the first incarnation, e.g. {1,2,3}
          IdReqs,      \* the AllocID requests among them (the others are Tso requests)
          Batch2,      \* the requests asking for 2 values (the others ask for 1)
          Deviations,  \* subset of {"CheckpointOutsideLock"}
          FailChoices, \* set of sets of requests whose checkpoint write fails (storage fault), Init picks one
          MaxHist      \* 0 for model checking, > 0 for behaviour generation

Kinds == {"ts", "id"}
KindOf  == [r \in Reqs |-> IF r \in IdReqs THEN "id" ELSE "ts"]
BatchOf == [r \in Reqs |-> IF r \in Batch2 THEN 2 ELSE 1]
Post  == {101, 102}                  \* the two requests issued after the restart
PKind == [p \in Post |-> IF p = 101 THEN "ts" ELSE "id"]
Sys   == 0

(* --algorithm PDAlloc {
variables
  ctr     = [k \in Kinds |-> 0],    \* allocator counters: last value allocated
  ckpt    = [k \in Kinds |-> 0],    \* PD_STATE.json
  tmpf    = [k \in Kinds |-> 0],    \* PD_STATE.json.tmp
  stateMu = 0,                      \* LocalStore.stateMu holder (0 = free)
  allocMu = 0,                      \* Service persist mutex holder (repaired design)
  epoch   = 1,                      \* incarnation of the PD process
  fails \in FailChoices,            \* the requests whose SaveAllocatorState returns an error
  out     = {},                     \* ghost: <<kind, value>> handed out so far
  bad     = {},                     \* ghost, sticky: which part of the property failed
  hist    = <<>>;                   \* behaviour generation: gate-level schedule

define {
  MaxOut(k) == LET s == {x[2] : x \in {y \in out : y[1] = k}}
               IN IF s = {} THEN 0 ELSE CHOOSE m \in s : \A u \in s : u <= m
  Range(k, first, n) == {<<k, v>> : v \in first..(first + n - 1)}
  Fixed == "CheckpointOutsideLock" \notin Deviations
  \* the property
  NoDuplicate == "duplicate" \notin bad
  Increasing  == "not-increasing" \notin bad
  Safe == NoDuplicate /\ Increasing
  \* the checkpoint never trails a handed-out value (what makes restarts safe)
  CheckpointCovers == \A x \in out : ckpt[x[1]] >= x[2]
}

macro Log(x) { if (Len(hist) < MaxHist) { hist := Append(hist, x) } }

macro HandOut(k, first, n, floor) {
  bad := bad \cup (IF Range(k, first, n) \cap out # {} THEN {"duplicate"} ELSE {})
             \cup (IF first <= floor THEN {"not-increasing"} ELSE {});
  out := out \cup Range(k, first, n);
}

fair process (req \in Reqs)
variables first = 0, floor = 0, seen = [k \in Kinds |-> 0];
{
Reserve:
  await epoch = 1;
  floor := MaxOut(KindOf[self]);       \* the request begins: everything handed out so far is below
  ctr[KindOf[self]] := ctr[KindOf[self]] + BatchOf[self];
  first := ctr[KindOf[self]] - BatchOf[self] + 1;
LockA:
  await epoch = 1;
  if (Fixed) { await allocMu = 0; allocMu := self };
ReadId:
  await epoch = 1;
  seen["id"] := ctr["id"];
ReadTs:
  await epoch = 1;
  seen["ts"] := ctr["ts"];
  Log(self);                           \* gate: SaveAllocatorState entered
WriteTmp:
  await epoch = 1 /\ stateMu = 0;
  if (self \in fails) {              \* the write fails: nothing reaches the disk, the request is answered with an error
    if (Fixed) { allocMu := 0 };
    Log(self);
    goto Done;
  } else {
    stateMu := self;
    tmpf := seen;
    Log(self);                         \* gate: before rename
  };
Rename:
  await epoch = 1;
  ckpt := tmpf;
  stateMu := 0;
  if (Fixed) { allocMu := 0 };
  Log(self);                           \* gate: SaveAllocatorState returned
Reply:
  await epoch = 1;
  HandOut(KindOf[self], first, BatchOf[self], floor);
  Log(self);
}

\* process crash (any time) and restart from the checkpoint file:
\* ResolveAllocatorStarts gives start = checkpoint + 1, the allocators store start - 1
process (sys = Sys)
{
Crash:
  ctr := ckpt;
  stateMu := 0; allocMu := 0;
  epoch := 2;
}

\* after the restart one timestamp and one id are allocated (whole requests, sequentially)
process (post \in Post)
{
PostAlloc:
  await epoch = 2 /\ (self = 102 => pc[101] = "Done");
  ctr[PKind[self]] := ctr[PKind[self]] + 1;
  ckpt := ctr;
  HandOut(PKind[self], ctr[PKind[self]], 1, MaxOut(PKind[self]));
}
} *)
\* BEGIN TRANSLATION
VARIABLES pc, ctr, ckpt, tmpf, stateMu, allocMu, epoch, fails, out, bad, hist

(* define statement *)
MaxOut(k) == LET s == {x[2] : x \in {y \in out : y[1] = k}}
             IN IF s = {} THEN 0 ELSE CHOOSE m \in s : \A u \in s : u <= m
Range(k, first, n) == {<<k, v>> : v \in first..(first + n - 1)}
Fixed == "CheckpointOutsideLock" \notin Deviations

NoDuplicate == "duplicate" \notin bad
Increasing  == "not-increasing" \notin bad
Safe == NoDuplicate /\ Increasing

CheckpointCovers == \A x \in out : ckpt[x[1]] >= x[2]

VARIABLES first, floor, seen

vars == << pc, ctr, ckpt, tmpf, stateMu, allocMu, epoch, fails, out, bad, 
           hist, first, floor, seen >>

ProcSet == (Reqs) \cup {Sys} \cup (Post)

Init == (* Global variables *)
        /\ ctr = [k \in Kinds |-> 0]
        /\ ckpt = [k \in Kinds |-> 0]
        /\ tmpf = [k \in Kinds |-> 0]
        /\ stateMu = 0
        /\ allocMu = 0
        /\ epoch = 1
        /\ fails \in FailChoices
        /\ out = {}
        /\ bad = {}
        /\ hist = <<>>
        (* Process req *)
        /\ first = [self \in Reqs |-> 0]
        /\ floor = [self \in Reqs |-> 0]
        /\ seen = [self \in Reqs |-> [k \in Kinds |-> 0]]
        /\ pc = [self \in ProcSet |-> CASE self \in Reqs -> "Reserve"
                                        [] self = Sys -> "Crash"
                                        [] self \in Post -> "PostAlloc"]

Reserve(self) == /\ pc[self] = "Reserve"
                 /\ epoch = 1
                 /\ floor' = [floor EXCEPT ![self] = MaxOut(KindOf[self])]
                 /\ ctr' = [ctr EXCEPT ![KindOf[self]] = ctr[KindOf[self]] + BatchOf[self]]
                 /\ first' = [first EXCEPT ![self] = ctr'[KindOf[self]] - BatchOf[self] + 1]
                 /\ pc' = [pc EXCEPT ![self] = "LockA"]
                 /\ UNCHANGED << ckpt, tmpf, stateMu, allocMu, epoch, fails, 
                                 out, bad, hist, seen >>

LockA(self) == /\ pc[self] = "LockA"
               /\ epoch = 1
               /\ IF Fixed
                     THEN /\ allocMu = 0
                          /\ allocMu' = self
                     ELSE /\ TRUE
                          /\ UNCHANGED allocMu
               /\ pc' = [pc EXCEPT ![self] = "ReadId"]
               /\ UNCHANGED << ctr, ckpt, tmpf, stateMu, epoch, fails, out, 
                               bad, hist, first, floor, seen >>

ReadId(self) == /\ pc[self] = "ReadId"
                /\ epoch = 1
                /\ seen' = [seen EXCEPT ![self]["id"] = ctr["id"]]
                /\ pc' = [pc EXCEPT ![self] = "ReadTs"]
                /\ UNCHANGED << ctr, ckpt, tmpf, stateMu, allocMu, epoch, 
                                fails, out, bad, hist, first, floor >>

ReadTs(self) == /\ pc[self] = "ReadTs"
                /\ epoch = 1
                /\ seen' = [seen EXCEPT ![self]["ts"] = ctr["ts"]]
                /\ IF Len(hist) < MaxHist
                      THEN /\ hist' = Append(hist, self)
                      ELSE /\ TRUE
                           /\ hist' = hist
                /\ pc' = [pc EXCEPT ![self] = "WriteTmp"]
                /\ UNCHANGED << ctr, ckpt, tmpf, stateMu, allocMu, epoch, 
                                fails, out, bad, first, floor >>

WriteTmp(self) == /\ pc[self] = "WriteTmp"
                  /\ epoch = 1 /\ stateMu = 0
                  /\ IF self \in fails
                        THEN /\ IF Fixed
                                   THEN /\ allocMu' = 0
                                   ELSE /\ TRUE
                                        /\ UNCHANGED allocMu
                             /\ IF Len(hist) < MaxHist
                                   THEN /\ hist' = Append(hist, self)
                                   ELSE /\ TRUE
                                        /\ hist' = hist
                             /\ pc' = [pc EXCEPT ![self] = "Done"]
                             /\ UNCHANGED << tmpf, stateMu >>
                        ELSE /\ stateMu' = self
                             /\ tmpf' = seen[self]
                             /\ IF Len(hist) < MaxHist
                                   THEN /\ hist' = Append(hist, self)
                                   ELSE /\ TRUE
                                        /\ hist' = hist
                             /\ pc' = [pc EXCEPT ![self] = "Rename"]
                             /\ UNCHANGED allocMu
                  /\ UNCHANGED << ctr, ckpt, epoch, fails, out, bad, first, 
                                  floor, seen >>

Rename(self) == /\ pc[self] = "Rename"
                /\ epoch = 1
                /\ ckpt' = tmpf
                /\ stateMu' = 0
                /\ IF Fixed
                      THEN /\ allocMu' = 0
                      ELSE /\ TRUE
                           /\ UNCHANGED allocMu
                /\ IF Len(hist) < MaxHist
                      THEN /\ hist' = Append(hist, self)
                      ELSE /\ TRUE
                           /\ hist' = hist
                /\ pc' = [pc EXCEPT ![self] = "Reply"]
                /\ UNCHANGED << ctr, tmpf, epoch, fails, out, bad, first, 
                                floor, seen >>

Reply(self) == /\ pc[self] = "Reply"
               /\ epoch = 1
               /\ bad' = (bad \cup (IF Range((KindOf[self]), first[self], (BatchOf[self])) \cap out # {} THEN {"duplicate"} ELSE {})
                              \cup (IF first[self] <= floor[self] THEN {"not-increasing"} ELSE {}))
               /\ out' = (out \cup Range((KindOf[self]), first[self], (BatchOf[self])))
               /\ IF Len(hist) < MaxHist
                     THEN /\ hist' = Append(hist, self)
                     ELSE /\ TRUE
                          /\ hist' = hist
               /\ pc' = [pc EXCEPT ![self] = "Done"]
               /\ UNCHANGED << ctr, ckpt, tmpf, stateMu, allocMu, epoch, fails, 
                               first, floor, seen >>

req(self) == Reserve(self) \/ LockA(self) \/ ReadId(self) \/ ReadTs(self)
                \/ WriteTmp(self) \/ Rename(self) \/ Reply(self)

Crash == /\ pc[Sys] = "Crash"
         /\ ctr' = ckpt
         /\ stateMu' = 0
         /\ allocMu' = 0
         /\ epoch' = 2
         /\ pc' = [pc EXCEPT ![Sys] = "Done"]
         /\ UNCHANGED << ckpt, tmpf, fails, out, bad, hist, first, floor, seen >>

sys == Crash

PostAlloc(self) == /\ pc[self] = "PostAlloc"
                   /\ epoch = 2 /\ (self = 102 => pc[101] = "Done")
                   /\ ctr' = [ctr EXCEPT ![PKind[self]] = ctr[PKind[self]] + 1]
                   /\ ckpt' = ctr'
                   /\ bad' = (bad \cup (IF Range((PKind[self]), (ctr'[PKind[self]]), 1) \cap out # {} THEN {"duplicate"} ELSE {})
                                  \cup (IF (ctr'[PKind[self]]) <= (MaxOut(PKind[self])) THEN {"not-increasing"} ELSE {}))
                   /\ out' = (out \cup Range((PKind[self]), (ctr'[PKind[self]]), 1))
                   /\ pc' = [pc EXCEPT ![self] = "Done"]
                   /\ UNCHANGED << tmpf, stateMu, allocMu, epoch, fails, hist, 
                                   first, floor, seen >>

post(self) == PostAlloc(self)

(* Allow infinite stuttering to prevent deadlock on termination. *)
Terminating == /\ \A self \in ProcSet: pc[self] = "Done"
               /\ UNCHANGED vars

Next == sys
           \/ (\E self \in Reqs: req(self))
           \/ (\E self \in Post: post(self))
           \/ Terminating

Spec == /\ Init /\ [][Next]_vars
        /\ \A self \in Reqs : WF_vars(req(self))

Termination == <>(\A self \in ProcSet: pc[self] = "Done")

\* END TRANSLATION

\* ---- behaviour generation ------------------------------------------------------------
\* The harness can park a request only where it has a gate (storage wrapper entry/exit and the
\* FaultFS hook before the rename).  Between Reserve and the arrival at the first gate a request
\* cannot be pre-empted by the harness, so generated schedules keep those steps contiguous.
Uncontrolled == {"LockA", "ReadId", "ReadTs"}
GateGrain == \A r \in Reqs : pc[r] \in Uncontrolled => pc'[r] # pc[r]

\* every behaviour is printed once the post-restart allocations are done
EmitHist == (pc[102] = "Done") => PrintT(<<"SCHED", ToJson(hist)>>)   \* `fails` is fixed by the generation cfg

View == <<fails, ctr, ckpt, tmpf, stateMu, allocMu, epoch, out, bad, pc, first, floor, seen>>
=============================================================================
