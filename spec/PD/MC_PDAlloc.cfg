SPECIFICATION Spec
CONSTANTS
 Reqs = {1,2,3}
 IdReqs = {3}
 Batch2 = {2}
 Deviations = {}
 FailChoices = {{}, {1}, {2}, {3}}
 MaxHist = 0
 defaultInitValue = 0
INVARIANTS Safe CheckpointCovers
VIEW View
CHECK_DEADLOCK FALSE
