SPECIFICATION Spec
CONSTANTS
 Ids = {1,2,3}
 Starts = {0,2,4,6}
 Ends = {2,4,6,100}
 Vers = {1,2,3}
 Confs = {1,2}
 LookupKeys = {0,1,2,3,4,5,6,7}
 Degenerate = TRUE
 Deviations = {}
 MaxHist = 0
INVARIANTS TypeOK Disjoint LookupCorrect DiskInSync RestartIdentical
VIEW View
CHECK_DEADLOCK FALSE
