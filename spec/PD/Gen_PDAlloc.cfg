SPECIFICATION Spec
CONSTANTS
 Reqs = {1,2}
 IdReqs = {}
 Batch2 = {2}
 Deviations = {"CheckpointOutsideLock"}
 FailChoices = {{}}
 MaxHist = 100
 defaultInitValue = 0
ACTION_CONSTRAINT GateGrain
INVARIANT EmitHist
CHECK_DEADLOCK FALSE
