SPECIFICATION Spec
CONSTANTS
 Ids = {1,2,3}
 Starts = {0,2,4}
 Ends = {2,4,100}
 Vers = {1,2}
 Confs = {1}
 LookupKeys = {0,1,2,3,4,5}
 Degenerate = TRUE
 Deviations = {"EmptyRangeAccepted"}
 MaxHist = 0
INVARIANTS LookupCorrect
VIEW View
CHECK_DEADLOCK FALSE
