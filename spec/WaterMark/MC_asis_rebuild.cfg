\* EXPECTED RED: the code as it is, serialised Begins, window rebuild racing with addIndex (finding C32-window-race)
SPECIFICATION SpecH
CONSTANTS
 N = 2
 MaxI = 4
 Scenarios <- ScenWindowRace
 CountFirst = TRUE
 MaxPreempt = 1000
 Emit = FALSE
VIEW View
INVARIANT NoPassC
INVARIANT WaitOKC
PROPERTY Mono
CHECK_DEADLOCK FALSE
