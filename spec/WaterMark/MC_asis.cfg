\* EXPECTED RED: the code as it is with concurrent unordered Begin calls (finding C32-late-begin); prints the counterexample schedule
SPECIFICATION SpecH
CONSTANTS
 N = 2
 MaxI = 4
 Scenarios <- ScenLateBegin
 CountFirst = TRUE
 MaxPreempt = 1000
 Emit = FALSE
VIEW View
INVARIANT NoPassC
INVARIANT WaitOKC
PROPERTY Mono
CHECK_DEADLOCK FALSE
