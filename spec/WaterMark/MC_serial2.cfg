\* gating: oracle usage pattern (Begins under the caller's lock, increasing), no window rebuild, 2 threads
SPECIFICATION SpecH
CONSTANTS
 N = 2
 MaxI = 4
 Scenarios <- ScenSerial2NoRebuild
 CountFirst = TRUE
 MaxPreempt = 1000
 Emit = FALSE
VIEW View
INVARIANT NoPass
INVARIANT WaitOK
INVARIANT TypeOK
PROPERTY Mono
CHECK_DEADLOCK FALSE
