--------------------------- MODULE WaterMarkImpl ---------------------------
(* Implementation-shaped specification of utils/watermarker.go (NoKV), property C32.  *)
(*                                                                                    *)
(* One PlusCal label per atomic load / store / CAS / Add of the real code.  A label   *)
(* is named after the verif yield point the thread is parked at before the step      *)
(* (label last_load <-> utils.VerifYield("wm.last.load"), op / xlock are the driver's *)
(* own yield points between two API calls / before its external lock):                *)
(*                                                                                    *)
(*   setLastIndex         last_load (load lastIndex)      last_cas (CAS lastIndex)    *)
(*   ensureWindow         win_load (load window pointer)  win_lock (mu.Lock + reload) *)
(*   rebuildWindowLocked  rb_done (load doneUntil)  rb_copy (one slot Load/Store)     *)
(*                        rb_store (publish window, mu.Unlock)                        *)
(*   addIndex             add_slot (slot.Add(delta))                                  *)
(*   tryAdvance           adv_done (load doneUntil) adv_last (load lastIndex)         *)
(*                        adv_win (load window) adv_slot (load slot) adv_cas (CAS)    *)
(*   notifyWaiters        notify_lock (mu.Lock, close waiter channels, Unlock)        *)
(*   WaitForMark          wait_fast (load doneUntil) wait_lock (mu.Lock, re-check,    *)
(*                        register, Unlock) wait_park (blocked on the channel)        *)
(*                                                                                    *)
(* A critical section of mu that contains no yield point is one step: no other step   *)
(* can observe the difference (steps of other threads between Lock and the body do    *)
(* not touch mu-protected state and therefore commute with the Lock).                 *)
(*                                                                                    *)
(* Windows are heap objects (wins); a thread keeps a reference (wref) to the window   *)
(* it loaded, so an Add can land on a window that has been replaced meanwhile.        *)
(*                                                                                    *)
(* CountFirst = TRUE : Begin counts the slot, then publishes lastIndex, then advances *)
(*                     (the code after the fix: commit).                              *)
(* CountFirst = FALSE: Begin publishes lastIndex first (the code as found).           *)
(*                                                                                    *)
(* Ops of a thread program: Begin(is) (BeginMany if several), Done(is), Wait(i), and  *)
(* the oracle's usage pattern BeginNext(n) (take an external lock, draw the next n     *)
(* indices, Begin them, release the lock: txn.go newCommitTs) / DoneMine.             *)
EXTENDS Integers, Sequences, FiniteSets, TLC, Json

CONSTANTS N,           \* number of threads
          MaxI,        \* largest index used by any scenario
          Scenarios,   \* set of [w |-> window size, progs |-> <<program of thread 1, ...>>]
          CountFirst,
          MaxPreempt,  \* bound on pre-emptions (generation); a large number = unbounded
          Emit         \* TRUE: generation mode, print every complete schedule

Threads == 1..N

Op(o, is, n) == [op |-> o, is |-> is, n |-> n]
B(i)      == Op("Begin", <<i>>, 0)
BM(is)    == Op("Begin", is, 0)
D(i)      == Op("Done", <<i>>, 0)
DM(is)    == Op("Done", is, 0)
Wt(i)     == Op("Wait", <<i>>, 0)
BN(n)     == Op("BeginNext", <<>>, n)
DMine     == Op("DoneMine", <<>>, 0)
\* transaction oracle on top of the watermark (txn.go, property C05)
TxB       == Op("TxBegin", <<>>, 0)     \* db.NewTransaction: oracle.readTs
TxC       == Op("TxCommit", <<>>, 0)    \* txn.Commit: newCommitTs, apply, doneCommit
TxR       == Op("TxRead", <<>>, 0)      \* txn.Get of every key

Count(s, i) == Cardinality({j \in 1..Len(s) : s[j] = i})
InWin(i, w) == i >= w.base /\ i < w.base + Len(w.slots)
RECURSIVE Grow(_, _)
Grow(size, needed) == IF size >= needed THEN size ELSE Grow(2 * size, needed)

VARIABLES hist, lastT, preempt      \* schedule bookkeeping, outside the algorithm

(* --algorithm WaterMark {
variables
  scen \in Scenarios,
  doneUntil = 0, lastIndex = 0,
  wins = << [base |-> 1, slots |-> [j \in 1..scen.w |-> 0]] >>,   \* every window ever published
  curw = 1,                 \* the published window (w.window)
  mu = 0,                   \* holder of w.mu (0 = free)
  waiters = {},             \* indices with a registered, still open waiter channel
  xl = 0, nextIdx = 1,      \* the caller's external lock and index counter (oracle pattern)
  \* ---- ghost (property and witnesses)
  bret  = [i \in 1..MaxI |-> 0],   \* number of returned Begin calls per index
  dcall = [i \in 1..MaxI |-> 0],   \* number of Done calls made per index
  examined = {},            \* indices some tryAdvance found with a zero slot
  late = {},                \* witness: index counted (or dropped) by Begin after it had been examined as zero
  raced = {},               \* witness: Begin's Add hit a replaced window / an already copied slot, or tryAdvance read a replaced window
  waitBad = {},             \* pending indices <= i at the moment a WaitForMark(i) returned
  applied = {},             \* commit timestamps whose writes are in the store (C05)
  readBad = {},             \* threads that read at a timestamp whose commit was not applied yet (C05)
  wref = [t \in Threads |-> 0],   \* per thread: the window it holds a reference to
  ri   = [t \in Threads |-> 0];   \* per thread: next slot to copy in rebuildWindowLocked

define {
  Prog(t)    == scen.progs[t]
  Pending(i) == bret[i] > dcall[i]
  PendingSet == {i \in 1..MaxI : Pending(i)}
}

macro AfterSetLast() {
  if (phase = "pre") { phase := "add"; eidx := idxs[1]; ewk := "add"; goto win_load; }
  else { phase := "fin"; goto adv_done; }
}

macro AfterEnsureFast() {
  if (ewk = "add") { goto add_slot; } else { goto adv_done; }
}

macro FinishOp() {
  if (opi + 1 > Len(Prog(self))) { opi := opi + 1; goto Done; } else { opi := opi + 1; goto op; }
}

macro AfterAdvance() {
  if (phase = "add" /\ k < Len(idxs)) { eidx := idxs[k + 1]; k := k + 1; ewk := "add"; goto win_load; }
  else if (phase = "add" /\ kind = "Begin" /\ CountFirst) { phase := "post"; goto last_load; }
  else {
    if (kind = "Begin") {
      bret := [i \in 1..MaxI |-> bret[i] + Count(idxs, i)];
      if (tx = "commit") { goto c_begun; }       \* newCommitTs goes on under the oracle lock
      else { if (xl = self) { xl := 0; }; FinishOp(); }
    } else { tx := ""; FinishOp(); }
  }
}

macro WaitReturns() {
  if (kind = "Wait") { waitBad := waitBad \cup {j \in PendingSet : j <= idxs[1]}; };
  FinishOp();
}

process (thread \in Threads)
variables opi = 1, kind = "", idxs = <<>>, k = 0, delta = 0, phase = "",
          eidx = 0, ewk = "", slcur = 0, d = 0, nxt = 0,
          newBase = 0, newSlots = <<>>, mine = <<>>, tx = "", rts = 0;
{
op:
  if (opi > Len(Prog(self))) { goto Done; }
  else if (Prog(self)[opi].op = "BeginNext") { goto xlock; }
  else if (Prog(self)[opi].op = "TxBegin") { kind := "TxBegin"; rts := nextIdx - 1; goto r_next; }
  else if (Prog(self)[opi].op = "TxCommit") { goto c_lock; }
  else if (Prog(self)[opi].op = "TxRead") {
    \* Get of every key at rts: every commit <= rts has a timestamp already, so the newest one must be applied
    if (rts > 0 /\ rts \notin applied) { readBad := readBad \cup {self}; };
    FinishOp();
  }
  else {
    with (o = Prog(self)[opi], is = IF o.op = "DoneMine" THEN mine ELSE o.is) {
      kind := IF o.op = "DoneMine" THEN "Done" ELSE o.op;
      idxs := is;
      k := 1;
      if (o.op \in {"Done", "DoneMine"}) { dcall := [i \in 1..MaxI |-> dcall[i] + Count(is, i)]; };
      if (o.op = "Wait") { goto wait_fast; }
      else if (o.op = "Begin" /\ ~CountFirst) { phase := "pre"; delta := 1; goto last_load; }
      else { phase := "add"; delta := IF o.op = "Begin" THEN 1 ELSE -1; eidx := is[1]; ewk := "add"; goto win_load; }
    }
  };

xlock:
  await xl = 0;
  xl := self;
  with (n = Prog(self)[opi].n, is = [j \in 1..n |-> nextIdx + j - 1]) {
    nextIdx := nextIdx + n;
    kind := "Begin"; idxs := is; mine := is; k := 1; delta := 1;
    if (~CountFirst) { phase := "pre"; goto last_load; }
    else { phase := "add"; eidx := is[1]; ewk := "add"; goto win_load; }
  };

\* ---- oracle.readTs (txn.go): load nextTxnTs (in the op step), clamp to txnMark.LastIndex(),
\* readMark.Begin (a different watermark, not modelled), txnMark.WaitForMark(readTs)
r_next:
  if (lastIndex < rts) { rts := lastIndex; };
r_last:
  skip;
r_begun:
  idxs := <<rts>>;
  goto wait_fast;

\* ---- oracle.newCommitTs under the oracle mutex (xl), apply, doneCommit
c_lock:
  await xl = 0;
  xl := self;
  mine := <<nextIdx>>;
  nextIdx := nextIdx + 1;
c_ts:
  kind := "Begin"; tx := "commit"; idxs := mine; k := 1; delta := 1;
  if (~CountFirst) { phase := "pre"; goto last_load; }
  else { phase := "add"; eidx := mine[1]; ewk := "add"; goto win_load; };
c_begun:
  xl := 0;                                 \* committedTxns appended, oracle mutex released, newCommitTs returns
c_assigned:
  applied := applied \cup {mine[1]};       \* sendToWriteCh + req.Wait(): the writes are in the store
c_done:
  kind := "Done"; tx := "done"; idxs := mine; k := 1; delta := -1; phase := "add";
  dcall := [i \in 1..MaxI |-> dcall[i] + Count(mine, i)];
  eidx := mine[1]; ewk := "add";
  goto win_load;

last_load:
  slcur := lastIndex;
  if (idxs[Len(idxs)] <= lastIndex) { AfterSetLast(); } else { goto last_cas; };

last_cas:
  if (lastIndex = slcur) { lastIndex := idxs[Len(idxs)]; AfterSetLast(); } else { goto last_load; };

win_load:
  wref[self] := curw;
  if (InWin(eidx, wins[curw])) { AfterEnsureFast(); } else { goto win_lock; };

win_lock:
  await mu = 0;
  wref[self] := curw;
  if (InWin(eidx, wins[curw])) { AfterEnsureFast(); } else { mu := self; goto rb_done; };

rb_done:
  with (nb = doneUntil + 1, ix = IF eidx < nb THEN nb ELSE eidx) {
    newBase := nb;
    newSlots := [j \in 1..Grow(Len(wins[wref[self]].slots), ix - nb + 1) |-> 0];
    ri[self] := 1;
  };

rb_copy:
  with (cnt = wins[wref[self]].slots[ri[self]], ix = wins[wref[self]].base + ri[self] - 1) {
    if (cnt # 0 /\ ix >= newBase /\ ix - newBase < Len(newSlots)) { newSlots[ix - newBase + 1] := cnt; };
  };
  if (ri[self] = Len(wins[wref[self]].slots)) { ri[self] := ri[self] + 1; goto rb_store; } else { ri[self] := ri[self] + 1; goto rb_copy; };

rb_store:
  curw := Len(wins) + 1;
  wref[self] := Len(wins) + 1;
  wins := Append(wins, [base |-> newBase, slots |-> newSlots]);
  mu := 0;
  if (ewk = "add") {
    if (eidx >= newBase /\ eidx - newBase < Len(newSlots)) { goto add_slot; }
    else {
      \* index below the rebuilt window (<= doneUntil): addIndex skips the Add altogether
      if (delta = 1 /\ eidx \in examined) { late := late \cup {eidx}; };
      goto adv_done;
    }
  } else { goto adv_done; };

add_slot:
  if (delta = 1) {
    if (eidx \in examined) { late := late \cup {eidx}; };
    if (wref[self] # curw \/ \E u \in Threads \ {self} : /\ pc[u] \in {"rb_copy", "rb_store"}
                                                   /\ wref[u] = wref[self]
                                                   /\ ri[u] > eidx - wins[wref[self]].base + 1)
       { raced := raced \cup {eidx}; };
  };
  wins[wref[self]].slots[eidx - wins[wref[self]].base + 1] := wins[wref[self]].slots[eidx - wins[wref[self]].base + 1] + delta;

adv_done:
  d := doneUntil;

adv_last:
  if (d >= lastIndex) { AfterAdvance(); } else { nxt := d + 1; goto adv_win; };

adv_win:
  wref[self] := curw;
  if (InWin(nxt, wins[curw])) { goto adv_slot; } else { eidx := nxt; ewk := "adv"; goto win_load; };

adv_slot:
  if (wins[wref[self]].slots[nxt - wins[wref[self]].base + 1] > 0) { AfterAdvance(); }
  else {
    examined := examined \cup {nxt};
    \* the slot was read from a window that has been replaced since adv_win loaded it
    if (wref[self] # curw) { raced := raced \cup {nxt}; };
    goto adv_cas;
  };

adv_cas:
  if (doneUntil = d) { doneUntil := nxt; goto notify_lock; } else { goto adv_done; };

notify_lock:
  await mu = 0;
  waiters := {i \in waiters : i > nxt};
  goto adv_done;

wait_fast:
  if (doneUntil >= idxs[1]) { WaitReturns(); } else { goto wait_lock; };

wait_lock:
  await mu = 0;
  if (doneUntil >= idxs[1]) { WaitReturns(); } else { waiters := waiters \cup {idxs[1]}; goto wait_park; };

wait_park:
  await idxs[1] \notin waiters;
  WaitReturns();
}
} *)
\* BEGIN TRANSLATION
VARIABLES pc, scen, doneUntil, lastIndex, wins, curw, mu, waiters, xl, 
          nextIdx, bret, dcall, examined, late, raced, waitBad, applied, 
          readBad, wref, ri

(* define statement *)
Prog(t)    == scen.progs[t]
Pending(i) == bret[i] > dcall[i]
PendingSet == {i \in 1..MaxI : Pending(i)}

VARIABLES opi, kind, idxs, k, delta, phase, eidx, ewk, slcur, d, nxt, newBase, 
          newSlots, mine, tx, rts

vars == << pc, scen, doneUntil, lastIndex, wins, curw, mu, waiters, xl, 
           nextIdx, bret, dcall, examined, late, raced, waitBad, applied, 
           readBad, wref, ri, opi, kind, idxs, k, delta, phase, eidx, ewk, 
           slcur, d, nxt, newBase, newSlots, mine, tx, rts >>

ProcSet == (Threads)

Init == (* Global variables *)
        /\ scen \in Scenarios
        /\ doneUntil = 0
        /\ lastIndex = 0
        /\ wins = << [base |-> 1, slots |-> [j \in 1..scen.w |-> 0]] >>
        /\ curw = 1
        /\ mu = 0
        /\ waiters = {}
        /\ xl = 0
        /\ nextIdx = 1
        /\ bret = [i \in 1..MaxI |-> 0]
        /\ dcall = [i \in 1..MaxI |-> 0]
        /\ examined = {}
        /\ late = {}
        /\ raced = {}
        /\ waitBad = {}
        /\ applied = {}
        /\ readBad = {}
        /\ wref = [t \in Threads |-> 0]
        /\ ri = [t \in Threads |-> 0]
        (* Process thread *)
        /\ opi = [self \in Threads |-> 1]
        /\ kind = [self \in Threads |-> ""]
        /\ idxs = [self \in Threads |-> <<>>]
        /\ k = [self \in Threads |-> 0]
        /\ delta = [self \in Threads |-> 0]
        /\ phase = [self \in Threads |-> ""]
        /\ eidx = [self \in Threads |-> 0]
        /\ ewk = [self \in Threads |-> ""]
        /\ slcur = [self \in Threads |-> 0]
        /\ d = [self \in Threads |-> 0]
        /\ nxt = [self \in Threads |-> 0]
        /\ newBase = [self \in Threads |-> 0]
        /\ newSlots = [self \in Threads |-> <<>>]
        /\ mine = [self \in Threads |-> <<>>]
        /\ tx = [self \in Threads |-> ""]
        /\ rts = [self \in Threads |-> 0]
        /\ pc = [self \in ProcSet |-> "op"]

op(self) == /\ pc[self] = "op"
            /\ IF opi[self] > Len(Prog(self))
                  THEN /\ pc' = [pc EXCEPT ![self] = "Done"]
                       /\ UNCHANGED << dcall, readBad, opi, kind, idxs, k, 
                                       delta, phase, eidx, ewk, rts >>
                  ELSE /\ IF Prog(self)[opi[self]].op = "BeginNext"
                             THEN /\ pc' = [pc EXCEPT ![self] = "xlock"]
                                  /\ UNCHANGED << dcall, readBad, opi, kind, 
                                                  idxs, k, delta, phase, eidx, 
                                                  ewk, rts >>
                             ELSE /\ IF Prog(self)[opi[self]].op = "TxBegin"
                                        THEN /\ kind' = [kind EXCEPT ![self] = "TxBegin"]
                                             /\ rts' = [rts EXCEPT ![self] = nextIdx - 1]
                                             /\ pc' = [pc EXCEPT ![self] = "r_next"]
                                             /\ UNCHANGED << dcall, readBad, 
                                                             opi, idxs, k, 
                                                             delta, phase, 
                                                             eidx, ewk >>
                                        ELSE /\ IF Prog(self)[opi[self]].op = "TxCommit"
                                                   THEN /\ pc' = [pc EXCEPT ![self] = "c_lock"]
                                                        /\ UNCHANGED << dcall, 
                                                                        readBad, 
                                                                        opi, 
                                                                        kind, 
                                                                        idxs, 
                                                                        k, 
                                                                        delta, 
                                                                        phase, 
                                                                        eidx, 
                                                                        ewk >>
                                                   ELSE /\ IF Prog(self)[opi[self]].op = "TxRead"
                                                              THEN /\ IF rts[self] > 0 /\ rts[self] \notin applied
                                                                         THEN /\ readBad' = (readBad \cup {self})
                                                                         ELSE /\ TRUE
                                                                              /\ UNCHANGED readBad
                                                                   /\ IF opi[self] + 1 > Len(Prog(self))
                                                                         THEN /\ opi' = [opi EXCEPT ![self] = opi[self] + 1]
                                                                              /\ pc' = [pc EXCEPT ![self] = "Done"]
                                                                         ELSE /\ opi' = [opi EXCEPT ![self] = opi[self] + 1]
                                                                              /\ pc' = [pc EXCEPT ![self] = "op"]
                                                                   /\ UNCHANGED << dcall, 
                                                                                   kind, 
                                                                                   idxs, 
                                                                                   k, 
                                                                                   delta, 
                                                                                   phase, 
                                                                                   eidx, 
                                                                                   ewk >>
                                                              ELSE /\ LET o == Prog(self)[opi[self]] IN
                                                                        LET is == IF o.op = "DoneMine" THEN mine[self] ELSE o.is IN
                                                                          /\ kind' = [kind EXCEPT ![self] = IF o.op = "DoneMine" THEN "Done" ELSE o.op]
                                                                          /\ idxs' = [idxs EXCEPT ![self] = is]
                                                                          /\ k' = [k EXCEPT ![self] = 1]
                                                                          /\ IF o.op \in {"Done", "DoneMine"}
                                                                                THEN /\ dcall' = [i \in 1..MaxI |-> dcall[i] + Count(is, i)]
                                                                                ELSE /\ TRUE
                                                                                     /\ dcall' = dcall
                                                                          /\ IF o.op = "Wait"
                                                                                THEN /\ pc' = [pc EXCEPT ![self] = "wait_fast"]
                                                                                     /\ UNCHANGED << delta, 
                                                                                                     phase, 
                                                                                                     eidx, 
                                                                                                     ewk >>
                                                                                ELSE /\ IF o.op = "Begin" /\ ~CountFirst
                                                                                           THEN /\ phase' = [phase EXCEPT ![self] = "pre"]
                                                                                                /\ delta' = [delta EXCEPT ![self] = 1]
                                                                                                /\ pc' = [pc EXCEPT ![self] = "last_load"]
                                                                                                /\ UNCHANGED << eidx, 
                                                                                                                ewk >>
                                                                                           ELSE /\ phase' = [phase EXCEPT ![self] = "add"]
                                                                                                /\ delta' = [delta EXCEPT ![self] = IF o.op = "Begin" THEN 1 ELSE -1]
                                                                                                /\ eidx' = [eidx EXCEPT ![self] = is[1]]
                                                                                                /\ ewk' = [ewk EXCEPT ![self] = "add"]
                                                                                                /\ pc' = [pc EXCEPT ![self] = "win_load"]
                                                                   /\ UNCHANGED << readBad, 
                                                                                   opi >>
                                             /\ rts' = rts
            /\ UNCHANGED << scen, doneUntil, lastIndex, wins, curw, mu, 
                            waiters, xl, nextIdx, bret, examined, late, raced, 
                            waitBad, applied, wref, ri, slcur, d, nxt, newBase, 
                            newSlots, mine, tx >>

xlock(self) == /\ pc[self] = "xlock"
               /\ xl = 0
               /\ xl' = self
               /\ LET n == Prog(self)[opi[self]].n IN
                    LET is == [j \in 1..n |-> nextIdx + j - 1] IN
                      /\ nextIdx' = nextIdx + n
                      /\ kind' = [kind EXCEPT ![self] = "Begin"]
                      /\ idxs' = [idxs EXCEPT ![self] = is]
                      /\ mine' = [mine EXCEPT ![self] = is]
                      /\ k' = [k EXCEPT ![self] = 1]
                      /\ delta' = [delta EXCEPT ![self] = 1]
                      /\ IF ~CountFirst
                            THEN /\ phase' = [phase EXCEPT ![self] = "pre"]
                                 /\ pc' = [pc EXCEPT ![self] = "last_load"]
                                 /\ UNCHANGED << eidx, ewk >>
                            ELSE /\ phase' = [phase EXCEPT ![self] = "add"]
                                 /\ eidx' = [eidx EXCEPT ![self] = is[1]]
                                 /\ ewk' = [ewk EXCEPT ![self] = "add"]
                                 /\ pc' = [pc EXCEPT ![self] = "win_load"]
               /\ UNCHANGED << scen, doneUntil, lastIndex, wins, curw, mu, 
                               waiters, bret, dcall, examined, late, raced, 
                               waitBad, applied, readBad, wref, ri, opi, slcur, 
                               d, nxt, newBase, newSlots, tx, rts >>

r_next(self) == /\ pc[self] = "r_next"
                /\ IF lastIndex < rts[self]
                      THEN /\ rts' = [rts EXCEPT ![self] = lastIndex]
                      ELSE /\ TRUE
                           /\ rts' = rts
                /\ pc' = [pc EXCEPT ![self] = "r_last"]
                /\ UNCHANGED << scen, doneUntil, lastIndex, wins, curw, mu, 
                                waiters, xl, nextIdx, bret, dcall, examined, 
                                late, raced, waitBad, applied, readBad, wref, 
                                ri, opi, kind, idxs, k, delta, phase, eidx, 
                                ewk, slcur, d, nxt, newBase, newSlots, mine, 
                                tx >>

r_last(self) == /\ pc[self] = "r_last"
                /\ TRUE
                /\ pc' = [pc EXCEPT ![self] = "r_begun"]
                /\ UNCHANGED << scen, doneUntil, lastIndex, wins, curw, mu, 
                                waiters, xl, nextIdx, bret, dcall, examined, 
                                late, raced, waitBad, applied, readBad, wref, 
                                ri, opi, kind, idxs, k, delta, phase, eidx, 
                                ewk, slcur, d, nxt, newBase, newSlots, mine, 
                                tx, rts >>

r_begun(self) == /\ pc[self] = "r_begun"
                 /\ idxs' = [idxs EXCEPT ![self] = <<rts[self]>>]
                 /\ pc' = [pc EXCEPT ![self] = "wait_fast"]
                 /\ UNCHANGED << scen, doneUntil, lastIndex, wins, curw, mu, 
                                 waiters, xl, nextIdx, bret, dcall, examined, 
                                 late, raced, waitBad, applied, readBad, wref, 
                                 ri, opi, kind, k, delta, phase, eidx, ewk, 
                                 slcur, d, nxt, newBase, newSlots, mine, tx, 
                                 rts >>

c_lock(self) == /\ pc[self] = "c_lock"
                /\ xl = 0
                /\ xl' = self
                /\ mine' = [mine EXCEPT ![self] = <<nextIdx>>]
                /\ nextIdx' = nextIdx + 1
                /\ pc' = [pc EXCEPT ![self] = "c_ts"]
                /\ UNCHANGED << scen, doneUntil, lastIndex, wins, curw, mu, 
                                waiters, bret, dcall, examined, late, raced, 
                                waitBad, applied, readBad, wref, ri, opi, kind, 
                                idxs, k, delta, phase, eidx, ewk, slcur, d, 
                                nxt, newBase, newSlots, tx, rts >>

c_ts(self) == /\ pc[self] = "c_ts"
              /\ kind' = [kind EXCEPT ![self] = "Begin"]
              /\ tx' = [tx EXCEPT ![self] = "commit"]
              /\ idxs' = [idxs EXCEPT ![self] = mine[self]]
              /\ k' = [k EXCEPT ![self] = 1]
              /\ delta' = [delta EXCEPT ![self] = 1]
              /\ IF ~CountFirst
                    THEN /\ phase' = [phase EXCEPT ![self] = "pre"]
                         /\ pc' = [pc EXCEPT ![self] = "last_load"]
                         /\ UNCHANGED << eidx, ewk >>
                    ELSE /\ phase' = [phase EXCEPT ![self] = "add"]
                         /\ eidx' = [eidx EXCEPT ![self] = mine[self][1]]
                         /\ ewk' = [ewk EXCEPT ![self] = "add"]
                         /\ pc' = [pc EXCEPT ![self] = "win_load"]
              /\ UNCHANGED << scen, doneUntil, lastIndex, wins, curw, mu, 
                              waiters, xl, nextIdx, bret, dcall, examined, 
                              late, raced, waitBad, applied, readBad, wref, ri, 
                              opi, slcur, d, nxt, newBase, newSlots, mine, rts >>

c_begun(self) == /\ pc[self] = "c_begun"
                 /\ xl' = 0
                 /\ pc' = [pc EXCEPT ![self] = "c_assigned"]
                 /\ UNCHANGED << scen, doneUntil, lastIndex, wins, curw, mu, 
                                 waiters, nextIdx, bret, dcall, examined, late, 
                                 raced, waitBad, applied, readBad, wref, ri, 
                                 opi, kind, idxs, k, delta, phase, eidx, ewk, 
                                 slcur, d, nxt, newBase, newSlots, mine, tx, 
                                 rts >>

c_assigned(self) == /\ pc[self] = "c_assigned"
                    /\ applied' = (applied \cup {mine[self][1]})
                    /\ pc' = [pc EXCEPT ![self] = "c_done"]
                    /\ UNCHANGED << scen, doneUntil, lastIndex, wins, curw, mu, 
                                    waiters, xl, nextIdx, bret, dcall, 
                                    examined, late, raced, waitBad, readBad, 
                                    wref, ri, opi, kind, idxs, k, delta, phase, 
                                    eidx, ewk, slcur, d, nxt, newBase, 
                                    newSlots, mine, tx, rts >>

c_done(self) == /\ pc[self] = "c_done"
                /\ kind' = [kind EXCEPT ![self] = "Done"]
                /\ tx' = [tx EXCEPT ![self] = "done"]
                /\ idxs' = [idxs EXCEPT ![self] = mine[self]]
                /\ k' = [k EXCEPT ![self] = 1]
                /\ delta' = [delta EXCEPT ![self] = -1]
                /\ phase' = [phase EXCEPT ![self] = "add"]
                /\ dcall' = [i \in 1..MaxI |-> dcall[i] + Count(mine[self], i)]
                /\ eidx' = [eidx EXCEPT ![self] = mine[self][1]]
                /\ ewk' = [ewk EXCEPT ![self] = "add"]
                /\ pc' = [pc EXCEPT ![self] = "win_load"]
                /\ UNCHANGED << scen, doneUntil, lastIndex, wins, curw, mu, 
                                waiters, xl, nextIdx, bret, examined, late, 
                                raced, waitBad, applied, readBad, wref, ri, 
                                opi, slcur, d, nxt, newBase, newSlots, mine, 
                                rts >>

last_load(self) == /\ pc[self] = "last_load"
                   /\ slcur' = [slcur EXCEPT ![self] = lastIndex]
                   /\ IF idxs[self][Len(idxs[self])] <= lastIndex
                         THEN /\ IF phase[self] = "pre"
                                    THEN /\ phase' = [phase EXCEPT ![self] = "add"]
                                         /\ eidx' = [eidx EXCEPT ![self] = idxs[self][1]]
                                         /\ ewk' = [ewk EXCEPT ![self] = "add"]
                                         /\ pc' = [pc EXCEPT ![self] = "win_load"]
                                    ELSE /\ phase' = [phase EXCEPT ![self] = "fin"]
                                         /\ pc' = [pc EXCEPT ![self] = "adv_done"]
                                         /\ UNCHANGED << eidx, ewk >>
                         ELSE /\ pc' = [pc EXCEPT ![self] = "last_cas"]
                              /\ UNCHANGED << phase, eidx, ewk >>
                   /\ UNCHANGED << scen, doneUntil, lastIndex, wins, curw, mu, 
                                   waiters, xl, nextIdx, bret, dcall, examined, 
                                   late, raced, waitBad, applied, readBad, 
                                   wref, ri, opi, kind, idxs, k, delta, d, nxt, 
                                   newBase, newSlots, mine, tx, rts >>

last_cas(self) == /\ pc[self] = "last_cas"
                  /\ IF lastIndex = slcur[self]
                        THEN /\ lastIndex' = idxs[self][Len(idxs[self])]
                             /\ IF phase[self] = "pre"
                                   THEN /\ phase' = [phase EXCEPT ![self] = "add"]
                                        /\ eidx' = [eidx EXCEPT ![self] = idxs[self][1]]
                                        /\ ewk' = [ewk EXCEPT ![self] = "add"]
                                        /\ pc' = [pc EXCEPT ![self] = "win_load"]
                                   ELSE /\ phase' = [phase EXCEPT ![self] = "fin"]
                                        /\ pc' = [pc EXCEPT ![self] = "adv_done"]
                                        /\ UNCHANGED << eidx, ewk >>
                        ELSE /\ pc' = [pc EXCEPT ![self] = "last_load"]
                             /\ UNCHANGED << lastIndex, phase, eidx, ewk >>
                  /\ UNCHANGED << scen, doneUntil, wins, curw, mu, waiters, xl, 
                                  nextIdx, bret, dcall, examined, late, raced, 
                                  waitBad, applied, readBad, wref, ri, opi, 
                                  kind, idxs, k, delta, slcur, d, nxt, newBase, 
                                  newSlots, mine, tx, rts >>

win_load(self) == /\ pc[self] = "win_load"
                  /\ wref' = [wref EXCEPT ![self] = curw]
                  /\ IF InWin(eidx[self], wins[curw])
                        THEN /\ IF ewk[self] = "add"
                                   THEN /\ pc' = [pc EXCEPT ![self] = "add_slot"]
                                   ELSE /\ pc' = [pc EXCEPT ![self] = "adv_done"]
                        ELSE /\ pc' = [pc EXCEPT ![self] = "win_lock"]
                  /\ UNCHANGED << scen, doneUntil, lastIndex, wins, curw, mu, 
                                  waiters, xl, nextIdx, bret, dcall, examined, 
                                  late, raced, waitBad, applied, readBad, ri, 
                                  opi, kind, idxs, k, delta, phase, eidx, ewk, 
                                  slcur, d, nxt, newBase, newSlots, mine, tx, 
                                  rts >>

win_lock(self) == /\ pc[self] = "win_lock"
                  /\ mu = 0
                  /\ wref' = [wref EXCEPT ![self] = curw]
                  /\ IF InWin(eidx[self], wins[curw])
                        THEN /\ IF ewk[self] = "add"
                                   THEN /\ pc' = [pc EXCEPT ![self] = "add_slot"]
                                   ELSE /\ pc' = [pc EXCEPT ![self] = "adv_done"]
                             /\ mu' = mu
                        ELSE /\ mu' = self
                             /\ pc' = [pc EXCEPT ![self] = "rb_done"]
                  /\ UNCHANGED << scen, doneUntil, lastIndex, wins, curw, 
                                  waiters, xl, nextIdx, bret, dcall, examined, 
                                  late, raced, waitBad, applied, readBad, ri, 
                                  opi, kind, idxs, k, delta, phase, eidx, ewk, 
                                  slcur, d, nxt, newBase, newSlots, mine, tx, 
                                  rts >>

rb_done(self) == /\ pc[self] = "rb_done"
                 /\ LET nb == doneUntil + 1 IN
                      LET ix == IF eidx[self] < nb THEN nb ELSE eidx[self] IN
                        /\ newBase' = [newBase EXCEPT ![self] = nb]
                        /\ newSlots' = [newSlots EXCEPT ![self] = [j \in 1..Grow(Len(wins[wref[self]].slots), ix - nb + 1) |-> 0]]
                        /\ ri' = [ri EXCEPT ![self] = 1]
                 /\ pc' = [pc EXCEPT ![self] = "rb_copy"]
                 /\ UNCHANGED << scen, doneUntil, lastIndex, wins, curw, mu, 
                                 waiters, xl, nextIdx, bret, dcall, examined, 
                                 late, raced, waitBad, applied, readBad, wref, 
                                 opi, kind, idxs, k, delta, phase, eidx, ewk, 
                                 slcur, d, nxt, mine, tx, rts >>

rb_copy(self) == /\ pc[self] = "rb_copy"
                 /\ LET cnt == wins[wref[self]].slots[ri[self]] IN
                      LET ix == wins[wref[self]].base + ri[self] - 1 IN
                        IF cnt # 0 /\ ix >= newBase[self] /\ ix - newBase[self] < Len(newSlots[self])
                           THEN /\ newSlots' = [newSlots EXCEPT ![self][ix - newBase[self] + 1] = cnt]
                           ELSE /\ TRUE
                                /\ UNCHANGED newSlots
                 /\ IF ri[self] = Len(wins[wref[self]].slots)
                       THEN /\ ri' = [ri EXCEPT ![self] = ri[self] + 1]
                            /\ pc' = [pc EXCEPT ![self] = "rb_store"]
                       ELSE /\ ri' = [ri EXCEPT ![self] = ri[self] + 1]
                            /\ pc' = [pc EXCEPT ![self] = "rb_copy"]
                 /\ UNCHANGED << scen, doneUntil, lastIndex, wins, curw, mu, 
                                 waiters, xl, nextIdx, bret, dcall, examined, 
                                 late, raced, waitBad, applied, readBad, wref, 
                                 opi, kind, idxs, k, delta, phase, eidx, ewk, 
                                 slcur, d, nxt, newBase, mine, tx, rts >>

rb_store(self) == /\ pc[self] = "rb_store"
                  /\ curw' = Len(wins) + 1
                  /\ wref' = [wref EXCEPT ![self] = Len(wins) + 1]
                  /\ wins' = Append(wins, [base |-> newBase[self], slots |-> newSlots[self]])
                  /\ mu' = 0
                  /\ IF ewk[self] = "add"
                        THEN /\ IF eidx[self] >= newBase[self] /\ eidx[self] - newBase[self] < Len(newSlots[self])
                                   THEN /\ pc' = [pc EXCEPT ![self] = "add_slot"]
                                        /\ late' = late
                                   ELSE /\ IF delta[self] = 1 /\ eidx[self] \in examined
                                              THEN /\ late' = (late \cup {eidx[self]})
                                              ELSE /\ TRUE
                                                   /\ late' = late
                                        /\ pc' = [pc EXCEPT ![self] = "adv_done"]
                        ELSE /\ pc' = [pc EXCEPT ![self] = "adv_done"]
                             /\ late' = late
                  /\ UNCHANGED << scen, doneUntil, lastIndex, waiters, xl, 
                                  nextIdx, bret, dcall, examined, raced, 
                                  waitBad, applied, readBad, ri, opi, kind, 
                                  idxs, k, delta, phase, eidx, ewk, slcur, d, 
                                  nxt, newBase, newSlots, mine, tx, rts >>

add_slot(self) == /\ pc[self] = "add_slot"
                  /\ IF delta[self] = 1
                        THEN /\ IF eidx[self] \in examined
                                   THEN /\ late' = (late \cup {eidx[self]})
                                   ELSE /\ TRUE
                                        /\ late' = late
                             /\ IF wref[self] # curw \/ \E u \in Threads \ {self} : /\ pc[u] \in {"rb_copy", "rb_store"}
                                                                              /\ wref[u] = wref[self]
                                                                              /\ ri[u] > eidx[self] - wins[wref[self]].base + 1
                                   THEN /\ raced' = (raced \cup {eidx[self]})
                                   ELSE /\ TRUE
                                        /\ raced' = raced
                        ELSE /\ TRUE
                             /\ UNCHANGED << late, raced >>
                  /\ wins' = [wins EXCEPT ![wref[self]].slots[eidx[self] - wins[wref[self]].base + 1] = wins[wref[self]].slots[eidx[self] - wins[wref[self]].base + 1] + delta[self]]
                  /\ pc' = [pc EXCEPT ![self] = "adv_done"]
                  /\ UNCHANGED << scen, doneUntil, lastIndex, curw, mu, 
                                  waiters, xl, nextIdx, bret, dcall, examined, 
                                  waitBad, applied, readBad, wref, ri, opi, 
                                  kind, idxs, k, delta, phase, eidx, ewk, 
                                  slcur, d, nxt, newBase, newSlots, mine, tx, 
                                  rts >>

adv_done(self) == /\ pc[self] = "adv_done"
                  /\ d' = [d EXCEPT ![self] = doneUntil]
                  /\ pc' = [pc EXCEPT ![self] = "adv_last"]
                  /\ UNCHANGED << scen, doneUntil, lastIndex, wins, curw, mu, 
                                  waiters, xl, nextIdx, bret, dcall, examined, 
                                  late, raced, waitBad, applied, readBad, wref, 
                                  ri, opi, kind, idxs, k, delta, phase, eidx, 
                                  ewk, slcur, nxt, newBase, newSlots, mine, tx, 
                                  rts >>

adv_last(self) == /\ pc[self] = "adv_last"
                  /\ IF d[self] >= lastIndex
                        THEN /\ IF phase[self] = "add" /\ k[self] < Len(idxs[self])
                                   THEN /\ eidx' = [eidx EXCEPT ![self] = idxs[self][k[self] + 1]]
                                        /\ k' = [k EXCEPT ![self] = k[self] + 1]
                                        /\ ewk' = [ewk EXCEPT ![self] = "add"]
                                        /\ pc' = [pc EXCEPT ![self] = "win_load"]
                                        /\ UNCHANGED << xl, bret, opi, phase, 
                                                        tx >>
                                   ELSE /\ IF phase[self] = "add" /\ kind[self] = "Begin" /\ CountFirst
                                              THEN /\ phase' = [phase EXCEPT ![self] = "post"]
                                                   /\ pc' = [pc EXCEPT ![self] = "last_load"]
                                                   /\ UNCHANGED << xl, bret, 
                                                                   opi, tx >>
                                              ELSE /\ IF kind[self] = "Begin"
                                                         THEN /\ bret' = [i \in 1..MaxI |-> bret[i] + Count(idxs[self], i)]
                                                              /\ IF tx[self] = "commit"
                                                                    THEN /\ pc' = [pc EXCEPT ![self] = "c_begun"]
                                                                         /\ UNCHANGED << xl, 
                                                                                         opi >>
                                                                    ELSE /\ IF xl = self
                                                                               THEN /\ xl' = 0
                                                                               ELSE /\ TRUE
                                                                                    /\ xl' = xl
                                                                         /\ IF opi[self] + 1 > Len(Prog(self))
                                                                               THEN /\ opi' = [opi EXCEPT ![self] = opi[self] + 1]
                                                                                    /\ pc' = [pc EXCEPT ![self] = "Done"]
                                                                               ELSE /\ opi' = [opi EXCEPT ![self] = opi[self] + 1]
                                                                                    /\ pc' = [pc EXCEPT ![self] = "op"]
                                                              /\ tx' = tx
                                                         ELSE /\ tx' = [tx EXCEPT ![self] = ""]
                                                              /\ IF opi[self] + 1 > Len(Prog(self))
                                                                    THEN /\ opi' = [opi EXCEPT ![self] = opi[self] + 1]
                                                                         /\ pc' = [pc EXCEPT ![self] = "Done"]
                                                                    ELSE /\ opi' = [opi EXCEPT ![self] = opi[self] + 1]
                                                                         /\ pc' = [pc EXCEPT ![self] = "op"]
                                                              /\ UNCHANGED << xl, 
                                                                              bret >>
                                                   /\ phase' = phase
                                        /\ UNCHANGED << k, eidx, ewk >>
                             /\ nxt' = nxt
                        ELSE /\ nxt' = [nxt EXCEPT ![self] = d[self] + 1]
                             /\ pc' = [pc EXCEPT ![self] = "adv_win"]
                             /\ UNCHANGED << xl, bret, opi, k, phase, eidx, 
                                             ewk, tx >>
                  /\ UNCHANGED << scen, doneUntil, lastIndex, wins, curw, mu, 
                                  waiters, nextIdx, dcall, examined, late, 
                                  raced, waitBad, applied, readBad, wref, ri, 
                                  kind, idxs, delta, slcur, d, newBase, 
                                  newSlots, mine, rts >>

adv_win(self) == /\ pc[self] = "adv_win"
                 /\ wref' = [wref EXCEPT ![self] = curw]
                 /\ IF InWin(nxt[self], wins[curw])
                       THEN /\ pc' = [pc EXCEPT ![self] = "adv_slot"]
                            /\ UNCHANGED << eidx, ewk >>
                       ELSE /\ eidx' = [eidx EXCEPT ![self] = nxt[self]]
                            /\ ewk' = [ewk EXCEPT ![self] = "adv"]
                            /\ pc' = [pc EXCEPT ![self] = "win_load"]
                 /\ UNCHANGED << scen, doneUntil, lastIndex, wins, curw, mu, 
                                 waiters, xl, nextIdx, bret, dcall, examined, 
                                 late, raced, waitBad, applied, readBad, ri, 
                                 opi, kind, idxs, k, delta, phase, slcur, d, 
                                 nxt, newBase, newSlots, mine, tx, rts >>

adv_slot(self) == /\ pc[self] = "adv_slot"
                  /\ IF wins[wref[self]].slots[nxt[self] - wins[wref[self]].base + 1] > 0
                        THEN /\ IF phase[self] = "add" /\ k[self] < Len(idxs[self])
                                   THEN /\ eidx' = [eidx EXCEPT ![self] = idxs[self][k[self] + 1]]
                                        /\ k' = [k EXCEPT ![self] = k[self] + 1]
                                        /\ ewk' = [ewk EXCEPT ![self] = "add"]
                                        /\ pc' = [pc EXCEPT ![self] = "win_load"]
                                        /\ UNCHANGED << xl, bret, opi, phase, 
                                                        tx >>
                                   ELSE /\ IF phase[self] = "add" /\ kind[self] = "Begin" /\ CountFirst
                                              THEN /\ phase' = [phase EXCEPT ![self] = "post"]
                                                   /\ pc' = [pc EXCEPT ![self] = "last_load"]
                                                   /\ UNCHANGED << xl, bret, 
                                                                   opi, tx >>
                                              ELSE /\ IF kind[self] = "Begin"
                                                         THEN /\ bret' = [i \in 1..MaxI |-> bret[i] + Count(idxs[self], i)]
                                                              /\ IF tx[self] = "commit"
                                                                    THEN /\ pc' = [pc EXCEPT ![self] = "c_begun"]
                                                                         /\ UNCHANGED << xl, 
                                                                                         opi >>
                                                                    ELSE /\ IF xl = self
                                                                               THEN /\ xl' = 0
                                                                               ELSE /\ TRUE
                                                                                    /\ xl' = xl
                                                                         /\ IF opi[self] + 1 > Len(Prog(self))
                                                                               THEN /\ opi' = [opi EXCEPT ![self] = opi[self] + 1]
                                                                                    /\ pc' = [pc EXCEPT ![self] = "Done"]
                                                                               ELSE /\ opi' = [opi EXCEPT ![self] = opi[self] + 1]
                                                                                    /\ pc' = [pc EXCEPT ![self] = "op"]
                                                              /\ tx' = tx
                                                         ELSE /\ tx' = [tx EXCEPT ![self] = ""]
                                                              /\ IF opi[self] + 1 > Len(Prog(self))
                                                                    THEN /\ opi' = [opi EXCEPT ![self] = opi[self] + 1]
                                                                         /\ pc' = [pc EXCEPT ![self] = "Done"]
                                                                    ELSE /\ opi' = [opi EXCEPT ![self] = opi[self] + 1]
                                                                         /\ pc' = [pc EXCEPT ![self] = "op"]
                                                              /\ UNCHANGED << xl, 
                                                                              bret >>
                                                   /\ phase' = phase
                                        /\ UNCHANGED << k, eidx, ewk >>
                             /\ UNCHANGED << examined, raced >>
                        ELSE /\ examined' = (examined \cup {nxt[self]})
                             /\ IF wref[self] # curw
                                   THEN /\ raced' = (raced \cup {nxt[self]})
                                   ELSE /\ TRUE
                                        /\ raced' = raced
                             /\ pc' = [pc EXCEPT ![self] = "adv_cas"]
                             /\ UNCHANGED << xl, bret, opi, k, phase, eidx, 
                                             ewk, tx >>
                  /\ UNCHANGED << scen, doneUntil, lastIndex, wins, curw, mu, 
                                  waiters, nextIdx, dcall, late, waitBad, 
                                  applied, readBad, wref, ri, kind, idxs, 
                                  delta, slcur, d, nxt, newBase, newSlots, 
                                  mine, rts >>

adv_cas(self) == /\ pc[self] = "adv_cas"
                 /\ IF doneUntil = d[self]
                       THEN /\ doneUntil' = nxt[self]
                            /\ pc' = [pc EXCEPT ![self] = "notify_lock"]
                       ELSE /\ pc' = [pc EXCEPT ![self] = "adv_done"]
                            /\ UNCHANGED doneUntil
                 /\ UNCHANGED << scen, lastIndex, wins, curw, mu, waiters, xl, 
                                 nextIdx, bret, dcall, examined, late, raced, 
                                 waitBad, applied, readBad, wref, ri, opi, 
                                 kind, idxs, k, delta, phase, eidx, ewk, slcur, 
                                 d, nxt, newBase, newSlots, mine, tx, rts >>

notify_lock(self) == /\ pc[self] = "notify_lock"
                     /\ mu = 0
                     /\ waiters' = {i \in waiters : i > nxt[self]}
                     /\ pc' = [pc EXCEPT ![self] = "adv_done"]
                     /\ UNCHANGED << scen, doneUntil, lastIndex, wins, curw, 
                                     mu, xl, nextIdx, bret, dcall, examined, 
                                     late, raced, waitBad, applied, readBad, 
                                     wref, ri, opi, kind, idxs, k, delta, 
                                     phase, eidx, ewk, slcur, d, nxt, newBase, 
                                     newSlots, mine, tx, rts >>

wait_fast(self) == /\ pc[self] = "wait_fast"
                   /\ IF doneUntil >= idxs[self][1]
                         THEN /\ IF kind[self] = "Wait"
                                    THEN /\ waitBad' = (waitBad \cup {j \in PendingSet : j <= idxs[self][1]})
                                    ELSE /\ TRUE
                                         /\ UNCHANGED waitBad
                              /\ IF opi[self] + 1 > Len(Prog(self))
                                    THEN /\ opi' = [opi EXCEPT ![self] = opi[self] + 1]
                                         /\ pc' = [pc EXCEPT ![self] = "Done"]
                                    ELSE /\ opi' = [opi EXCEPT ![self] = opi[self] + 1]
                                         /\ pc' = [pc EXCEPT ![self] = "op"]
                         ELSE /\ pc' = [pc EXCEPT ![self] = "wait_lock"]
                              /\ UNCHANGED << waitBad, opi >>
                   /\ UNCHANGED << scen, doneUntil, lastIndex, wins, curw, mu, 
                                   waiters, xl, nextIdx, bret, dcall, examined, 
                                   late, raced, applied, readBad, wref, ri, 
                                   kind, idxs, k, delta, phase, eidx, ewk, 
                                   slcur, d, nxt, newBase, newSlots, mine, tx, 
                                   rts >>

wait_lock(self) == /\ pc[self] = "wait_lock"
                   /\ mu = 0
                   /\ IF doneUntil >= idxs[self][1]
                         THEN /\ IF kind[self] = "Wait"
                                    THEN /\ waitBad' = (waitBad \cup {j \in PendingSet : j <= idxs[self][1]})
                                    ELSE /\ TRUE
                                         /\ UNCHANGED waitBad
                              /\ IF opi[self] + 1 > Len(Prog(self))
                                    THEN /\ opi' = [opi EXCEPT ![self] = opi[self] + 1]
                                         /\ pc' = [pc EXCEPT ![self] = "Done"]
                                    ELSE /\ opi' = [opi EXCEPT ![self] = opi[self] + 1]
                                         /\ pc' = [pc EXCEPT ![self] = "op"]
                              /\ UNCHANGED waiters
                         ELSE /\ waiters' = (waiters \cup {idxs[self][1]})
                              /\ pc' = [pc EXCEPT ![self] = "wait_park"]
                              /\ UNCHANGED << waitBad, opi >>
                   /\ UNCHANGED << scen, doneUntil, lastIndex, wins, curw, mu, 
                                   xl, nextIdx, bret, dcall, examined, late, 
                                   raced, applied, readBad, wref, ri, kind, 
                                   idxs, k, delta, phase, eidx, ewk, slcur, d, 
                                   nxt, newBase, newSlots, mine, tx, rts >>

wait_park(self) == /\ pc[self] = "wait_park"
                   /\ idxs[self][1] \notin waiters
                   /\ IF kind[self] = "Wait"
                         THEN /\ waitBad' = (waitBad \cup {j \in PendingSet : j <= idxs[self][1]})
                         ELSE /\ TRUE
                              /\ UNCHANGED waitBad
                   /\ IF opi[self] + 1 > Len(Prog(self))
                         THEN /\ opi' = [opi EXCEPT ![self] = opi[self] + 1]
                              /\ pc' = [pc EXCEPT ![self] = "Done"]
                         ELSE /\ opi' = [opi EXCEPT ![self] = opi[self] + 1]
                              /\ pc' = [pc EXCEPT ![self] = "op"]
                   /\ UNCHANGED << scen, doneUntil, lastIndex, wins, curw, mu, 
                                   waiters, xl, nextIdx, bret, dcall, examined, 
                                   late, raced, applied, readBad, wref, ri, 
                                   kind, idxs, k, delta, phase, eidx, ewk, 
                                   slcur, d, nxt, newBase, newSlots, mine, tx, 
                                   rts >>

thread(self) == op(self) \/ xlock(self) \/ r_next(self) \/ r_last(self)
                   \/ r_begun(self) \/ c_lock(self) \/ c_ts(self)
                   \/ c_begun(self) \/ c_assigned(self) \/ c_done(self)
                   \/ last_load(self) \/ last_cas(self) \/ win_load(self)
                   \/ win_lock(self) \/ rb_done(self) \/ rb_copy(self)
                   \/ rb_store(self) \/ add_slot(self) \/ adv_done(self)
                   \/ adv_last(self) \/ adv_win(self) \/ adv_slot(self)
                   \/ adv_cas(self) \/ notify_lock(self) \/ wait_fast(self)
                   \/ wait_lock(self) \/ wait_park(self)

(* Allow infinite stuttering to prevent deadlock on termination. *)
Terminating == /\ \A self \in ProcSet: pc[self] = "Done"
               /\ UNCHANGED vars

Next == (\E self \in Threads: thread(self))
           \/ Terminating

Spec == Init /\ [][Next]_vars

Termination == <>(\A self \in ProcSet: pc[self] = "Done")

\* END TRANSLATION

\* ------------------------------------------------------------ schedules (M2)
\* A thread that cannot take a step: finished, or parked in front of a held lock / an open channel.
\* a schedule entry is 32 * thread + index of the label the thread was parked at (compact for TLC)
Labels == <<"op", "xlock", "last_load", "last_cas", "win_load", "win_lock", "rb_done", "rb_copy", "rb_store",
            "add_slot", "adv_done", "adv_last", "adv_win", "adv_slot", "adv_cas", "notify_lock",
            "wait_fast", "wait_lock", "wait_park",
            "r_next", "r_last", "r_begun", "c_lock", "c_ts", "c_begun", "c_done", "c_assigned">>
LabelIdx(l) == CHOOSE i \in 1..Len(Labels) : Labels[i] = l
Blocked(t) == \/ pc[t] = "Done"
              \/ pc[t] \in {"win_lock", "notify_lock", "wait_lock"} /\ mu # 0
              \/ pc[t] \in {"xlock", "c_lock"} /\ xl # 0
              \/ pc[t] = "wait_park" /\ idxs[t][1] \in waiters
Quiescent  == \A t \in Threads : Blocked(t)

InitH == Init /\ hist = <<>> /\ lastT = 0 /\ preempt = 0
StepH(t) ==
    LET pre == IF lastT # 0 /\ lastT # t /\ ~Blocked(lastT) THEN 1 ELSE 0
    IN /\ preempt + pre <= MaxPreempt
       /\ thread(t)
       /\ hist' = Append(hist, 32 * t + LabelIdx(pc[t]))
       /\ lastT' = t
       /\ preempt' = preempt + pre
NextH == \E t \in Threads : StepH(t)
varsH == <<vars, hist, lastT, preempt>>
SpecH == InitH /\ [][NextH]_varsH

\* the model state without schedule bookkeeping (VIEW for model checking)
View == vars

\* generation mode: print every complete schedule (path to a quiescent state) once
EmitHist == (Emit /\ Quiescent) =>
              PrintT(<<"SCHED", ToJson([w |-> scen.w, progs |-> scen.progs, hist |-> hist])>>)

\* expected-red configurations print the violating schedule as JSON (replayed on the real code)
Cex(inv) == inv \/ (PrintT(<<"CEX", ToJson([w |-> scen.w, progs |-> scen.progs, hist |-> hist])>>) /\ FALSE)

\* ------------------------------------------------------------ properties (M1)
Mono    == [][doneUntil' >= doneUntil]_varsH
NoPass  == \A i \in PendingSet : doneUntil < i
WaitOK  == waitBad = {}
\* C05 at this level: a transaction never reads at a timestamp whose commit is not applied yet
TxnReadOK  == readBad = {}
TxnReadOKC == Cex(TxnReadOK)
\* Safe-envelope characterisation of the code with concurrent, unordered Begin calls:
\* the mark passes a pending index only if that index carries one of the two witnesses.
NoPassC  == Cex(NoPass)
WaitOKC  == Cex(WaitOK)
NoPassOrWitness == \A i \in PendingSet : doneUntil >= i => i \in late \cup raced
WaitOKOrWitness == waitBad \subseteq late \cup raced
\* sanity: slots of the published window never go negative while nothing is tainted
TypeOK  == /\ doneUntil \in 0..MaxI /\ lastIndex \in 0..MaxI /\ mu \in 0..N /\ xl \in 0..N

\* ------------------------------------------------------------ scenario sets
\* oracle pattern: Begins serialised by the caller's lock, indices increasing; Done and Wait free
ScenSerial3 == {
  [w |-> 2, progs |-> << <<BN(1), DMine>>, <<BN(1), DMine>>, <<Wt(2)>> >>],
  [w |-> 2, progs |-> << <<BN(1), DMine>>, <<BN(2), DMine>>, <<Wt(1), Wt(3)>> >>],
  [w |-> 2, progs |-> << <<BN(1), DMine, BN(1)>>, <<BN(1), DMine>>, <<BN(1), DMine>> >>] }
ScenSerial2 == {
  [w |-> 2, progs |-> << <<BN(1), DMine, BN(1), DMine>>, <<BN(1), DMine, Wt(2)>> >>],
  [w |-> 2, progs |-> << <<BN(2), DMine>>, <<BN(1), DMine, BN(1), DMine>> >>],
  [w |-> 2, progs |-> << <<BN(1), DMine>>, <<BN(3), DMine>> >>] }
\* free (unordered, concurrent) Begin calls
ScenFree2 == {
  [w |-> 2, progs |-> << <<B(1), D(1)>>, <<B(2), D(2)>> >>],
  [w |-> 2, progs |-> << <<B(1), D(1)>>, <<B(3), D(3)>> >>],
  [w |-> 2, progs |-> << <<BM(<<1, 2>>), DM(<<1, 2>>)>>, <<B(3), Wt(2)>> >>],
  [w |-> 2, progs |-> << <<B(1), Wt(1)>>, <<B(2), D(2), Wt(2)>> >>],
  [w |-> 2, progs |-> << <<B(3)>>, <<B(4)>> >>],
  [w |-> 2, progs |-> << <<B(3), D(3)>>, <<B(1), B(4)>> >>] }
ScenFree3 == {
  [w |-> 2, progs |-> << <<B(1), D(1)>>, <<B(2), D(2)>>, <<B(3), D(3)>> >>],
  [w |-> 2, progs |-> << <<B(1), D(1)>>, <<B(3), D(3)>>, <<Wt(1), Wt(3)>> >>] }
WithW(S, w) == {[s EXCEPT !.w = w] : s \in S}
\* window large enough for every index: rebuildWindowLocked never runs
ScenSerial2NoRebuild == WithW(ScenSerial2, 4)
ScenSerial3NoRebuild == WithW(ScenSerial3, 4)
ScenAll2 == ScenSerial2 \cup ScenFree2
ScenAll3 == ScenSerial3 \cup ScenFree3
\* smaller sets for the quick tier / for three threads
ScenWitness2Quick == {
  [w |-> 2, progs |-> << <<BN(1), DMine, BN(1), DMine>>, <<BN(1), DMine>> >>],
  [w |-> 2, progs |-> << <<BN(1), DMine>>, <<BN(3), DMine>> >>],
  [w |-> 2, progs |-> << <<B(1), D(1)>>, <<B(2), D(2)>> >>],
  [w |-> 2, progs |-> << <<B(1), D(1)>>, <<B(3), D(3)>> >>],
  [w |-> 2, progs |-> << <<B(3)>>, <<B(4)>> >>] }        \* both Begins beyond the window: concurrent ensureWindow / rebuild
ScenWitness3 == {
  [w |-> 2, progs |-> << <<B(1), D(1)>>, <<B(2)>>, <<B(3)>> >>],
  [w |-> 2, progs |-> << <<BN(1), DMine>>, <<BN(1)>>, <<BN(1)>> >>],
  [w |-> 2, progs |-> << <<B(1)>>, <<B(3)>>, <<Wt(1), Wt(3)>> >>] }
\* the smallest scenarios showing each recorded deviation (expected-red configurations)
ScenLateBegin   == { [w |-> 4, progs |-> << <<B(1), D(1)>>, <<B(2), D(2)>> >>] }
ScenWindowRace  == { [w |-> 2, progs |-> << <<BN(1), DMine, BN(1), DMine>>, <<BN(1), DMine>> >>] }

\* two committers and one reader on the oracle (window never rebuilt: 65536 slots in the DB)
ScenTxn3 == { [w |-> 4, progs |-> << <<TxB, TxC>>, <<TxB, TxC>>, <<TxB, TxR, TxR>> >>] }
ScenTxn2 == { [w |-> 4, progs |-> << <<TxB, TxC, TxB, TxC>>, <<TxB, TxR, TxR>> >>],
              [w |-> 4, progs |-> << <<TxB, TxC>>, <<TxB, TxC, TxB, TxR>> >>] }
=============================================================================
