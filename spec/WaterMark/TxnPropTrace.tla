---------------------------- MODULE TxnPropTrace ----------------------------
(* Property layer for C05: "a transaction never sees another transaction partially or  *)
(* late", stated over abstract events only.                                            *)
(*                                                                                    *)
(*   History(k, lo, vals)  what key k shows at read timestamps lo, lo+1, ... once every *)
(*                         transaction of the run has finished (vals[j] is the value   *)
(*                         of the newest commit <= lo+j-1 among ALL commits that ever   *)
(*                         succeeded); recorded after the run, placed first in a trace *)
(*   TxBegin(t, r)         thread t started a transaction with read timestamp r        *)
(*   TxRead(t, k, v)       a point read or an iteration of that transaction returned v *)
(*                         for key k ("NOTFOUND" if absent)                            *)
(*   TxCommit(t, tok, ok, ks)  thread t's commit of token tok, written to the keys ks,  *)
(*                         returned; ok = no error                                    *)
(*                                                                                    *)
(* A trace is accepted iff every read of a transaction with read timestamp r returns   *)
(* exactly what the key shows at r in the final history.  Hence repeated reads agree,  *)
(* a reader sees all writes of a commit <= r or none of a commit > r, and no commit    *)
(* <= r becomes visible to it only later.  A successful commit must be in the history  *)
(* of every key it wrote.                                                              *)
EXTENDS Integers, Sequences, FiniteSets, TLC, Json, IOUtils

Trace == ndJsonDeserialize(IOEnv.TRACE)

VARIABLES l,      \* next trace line to explain
          hist,   \* [key -> [lo |-> first timestamp, vals |-> sequence of values]]
          rts     \* [thread -> read timestamp of its current transaction]
vars == <<l, hist, rts>>

Empty == [x \in {} |-> 0]
Upd(m, key, val) == [x \in (DOMAIN m) \cup {key} |-> IF x = key THEN val ELSE m[x]]
Range(s) == {s[j] : j \in 1..Len(s)}

Init == l = 1 /\ hist = Empty /\ rts = Empty

ev == Trace[l]
Expect(got, want) == got = want \/ (got # want /\ PrintT(<<"MISMATCH", l, want>>))
Check(cond, what) == cond \/ (~cond /\ PrintT(<<"MISMATCH", l, what>>))
IsEvent(name) == l <= Len(Trace) /\ ev.e = name /\ l' = l + 1

\* the value key k shows at read timestamp r
Visible(k, r) ==
    IF k \notin DOMAIN hist THEN "NOHISTORY"
    ELSE LET h == hist[k] j == r - h.lo + 1
         IN IF j >= 1 /\ j <= Len(h.vals) THEN h.vals[j] ELSE "OUTSIDE-HISTORY"

Reset   == IsEvent("Reset")   /\ hist' = Empty /\ rts' = Empty
History == IsEvent("History") /\ hist' = Upd(hist, ev.k, [lo |-> ev.lo, vals |-> ev.vals]) /\ UNCHANGED rts
TxBegin == IsEvent("TxBegin") /\ rts' = Upd(rts, ev.t, ev.r) /\ UNCHANGED hist
TxRead  == /\ IsEvent("TxRead")
           /\ Expect(ev.v, IF ev.t \in DOMAIN rts THEN Visible(ev.k, rts[ev.t]) ELSE "NO-TRANSACTION")
           /\ UNCHANGED <<hist, rts>>
TxCommit == /\ IsEvent("TxCommit")
            /\ (ev.ok => Check(\A j \in 1..Len(ev.ks) : ev.ks[j] \in DOMAIN hist /\ ev.tok \in Range(hist[ev.ks[j]].vals),
                                <<"commit-not-in-history", ev.tok>>))
            /\ UNCHANGED <<hist, rts>>

Next == Reset \/ History \/ TxBegin \/ TxRead \/ TxCommit
Spec == Init /\ [][Next]_vars

TraceAccepted ==
    LET d == TLCGet("stats").diameter
    IN PrintT(<<"TRACE_HW", d - 1, Len(Trace)>>) /\ d - 1 = Len(Trace)
=============================================================================
