------------------------- MODULE WaterMarkPropTrace -------------------------
(* Property layer for C32 (DESIGN.md 2.1, Appendix A): "the watermark never passes an  *)
(* unfinished index", stated over abstract events only.                                *)
(*                                                                                    *)
(*   BeginCall(is)  a Begin / BeginMany call starts            (no obligation)        *)
(*   BeginRet(is)   it returned: every index in is is begun                           *)
(*   DoneCall(is)   a Done / DoneMany call starts: its indices count as finished      *)
(*   Observe(d)     DoneUntil() read by the driver after a scheduler step             *)
(*   WaitRet(i)     WaitForMark(i) returned                                           *)
(*                                                                                    *)
(* An index is pending while more Begin calls of it have returned than Done calls     *)
(* of it have been made.  A trace is accepted iff                                     *)
(*   - the observed mark never decreases,                                             *)
(*   - every observed mark is below every pending index,                              *)
(*   - WaitForMark(i) returns only while no index <= i is pending.                    *)
(* Nothing here mentions slots, windows, lastIndex or any other internal identifier.  *)
EXTENDS Integers, Sequences, FiniteSets, TLC, Json, IOUtils

Trace == ndJsonDeserialize(IOEnv.TRACE)

VARIABLES l,        \* next trace line to explain
          open,     \* [index -> returned Begin calls minus started Done calls]
          lastSeen  \* last observed mark
vars == <<l, open, lastSeen>>

Empty == [x \in {} |-> 0]
Bump(m, is, by) ==
    LET idx == {is[j] : j \in 1..Len(is)}
        n(i) == Cardinality({j \in 1..Len(is) : is[j] = i})
    IN [x \in (DOMAIN m) \cup idx |->
          (IF x \in DOMAIN m THEN m[x] ELSE 0) + (IF x \in idx THEN by * n(x) ELSE 0)]
Pending == {i \in DOMAIN open : open[i] > 0}

Init == l = 1 /\ open = Empty /\ lastSeen = 0

ev == Trace[l]
\* A contradiction is reported (line, what was violated) and the trace continues, so one
\* run reports every contradicting observation of every concatenated trace.
Check(cond, what) == cond \/ (~cond /\ PrintT(<<"MISMATCH", l, what>>))
IsEvent(name) == l <= Len(Trace) /\ ev.e = name /\ l' = l + 1

Reset     == IsEvent("Reset")     /\ open' = Empty /\ lastSeen' = 0
BeginCall == IsEvent("BeginCall") /\ UNCHANGED <<open, lastSeen>>
BeginRet  == IsEvent("BeginRet")  /\ open' = Bump(open, ev.is, 1)  /\ UNCHANGED lastSeen
DoneCall  == IsEvent("DoneCall")  /\ open' = Bump(open, ev.is, -1) /\ UNCHANGED lastSeen

Observe ==
    /\ IsEvent("Observe")
    /\ Check(ev.d >= lastSeen, <<"decreased-from", lastSeen>>)
    /\ Check(\A i \in Pending : ev.d < i, <<"passed-pending", Pending>>)
    /\ lastSeen' = ev.d
    /\ UNCHANGED open

WaitRet ==
    /\ IsEvent("WaitRet")
    /\ Check(\A j \in Pending : j > ev.i, <<"wait-returned-with-pending", Pending>>)
    /\ UNCHANGED <<open, lastSeen>>

Next == Reset \/ BeginCall \/ BeginRet \/ DoneCall \/ Observe \/ WaitRet
Spec == Init /\ [][Next]_vars

TraceAccepted ==
    LET d == TLCGet("stats").diameter
    IN PrintT(<<"TRACE_HW", d - 1, Len(Trace)>>) /\ d - 1 = Len(Trace)
=============================================================================
