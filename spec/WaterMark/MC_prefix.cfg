\* EXPECTED RED (historic): Begin publishing lastIndex before counting, as found; repaired by the fix: commit
SPECIFICATION SpecH
CONSTANTS
 N = 2
 MaxI = 4
 Scenarios <- ScenSerial2NoRebuild
 CountFirst = FALSE
 MaxPreempt = 1000
 Emit = FALSE
VIEW View
INVARIANT NoPassC
INVARIANT WaitOKC
PROPERTY Mono
CHECK_DEADLOCK FALSE
