\* gating (thorough): same envelope, 3 threads
SPECIFICATION SpecH
CONSTANTS
 N = 3
 MaxI = 4
 Scenarios <- ScenSerial3NoRebuild
 CountFirst = TRUE
 MaxPreempt = 1000
 Emit = FALSE
VIEW View
INVARIANT NoPass
INVARIANT WaitOK
INVARIANT TypeOK
PROPERTY Mono
CHECK_DEADLOCK FALSE
