\* gating (thorough): witness characterisation, 3 threads
SPECIFICATION SpecH
CONSTANTS
 N = 3
 MaxI = 4
 Scenarios <- ScenAll3
 CountFirst = TRUE
 MaxPreempt = 1000
 Emit = FALSE
VIEW View
INVARIANT NoPassOrWitness
INVARIANT WaitOKOrWitness
INVARIANT TypeOK
PROPERTY Mono
CHECK_DEADLOCK FALSE
