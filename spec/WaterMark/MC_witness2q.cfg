\* gating (quick): outside the envelope (free Begins, window rebuilds) the mark passes a pending index only with a recorded witness
SPECIFICATION SpecH
CONSTANTS
 N = 2
 MaxI = 4
 Scenarios <- ScenWitness2Quick
 CountFirst = TRUE
 MaxPreempt = 1000
 Emit = FALSE
VIEW View
INVARIANT NoPassOrWitness
INVARIANT WaitOKOrWitness
INVARIANT TypeOK
PROPERTY Mono
CHECK_DEADLOCK FALSE
