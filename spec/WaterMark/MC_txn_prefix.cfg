\* EXPECTED RED (historic): the oracle over the watermark as found (Begin published lastIndex before counting): a reader gets a read timestamp whose commit is not applied; repaired by the fix: commit
SPECIFICATION SpecH
CONSTANTS
 N = 3
 MaxI = 4
 Scenarios <- ScenTxn3
 CountFirst = FALSE
 MaxPreempt = 1000
 Emit = FALSE
VIEW View
INVARIANT TxnReadOKC
PROPERTY Mono
CHECK_DEADLOCK FALSE
