\* C05 gating (quick): oracle (readTs / newCommitTs / doneCommit) over the watermark, one committer thread and one reader/committer
SPECIFICATION SpecH
CONSTANTS
 N = 2
 MaxI = 4
 Scenarios <- ScenTxn2
 CountFirst = TRUE
 MaxPreempt = 1000
 Emit = FALSE
VIEW View
INVARIANT TxnReadOK
INVARIANT NoPass
INVARIANT TypeOK
PROPERTY Mono
CHECK_DEADLOCK FALSE
