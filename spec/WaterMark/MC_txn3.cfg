\* C05 gating (thorough): two committers and one reader
SPECIFICATION SpecH
CONSTANTS
 N = 3
 MaxI = 4
 Scenarios <- ScenTxn3
 CountFirst = TRUE
 MaxPreempt = 1000
 Emit = FALSE
VIEW View
INVARIANT TxnReadOK
INVARIANT NoPass
INVARIANT TypeOK
PROPERTY Mono
CHECK_DEADLOCK FALSE
