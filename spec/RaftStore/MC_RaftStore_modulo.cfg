SPECIFICATION Spec
CONSTANTS
 Stores = {1,2,3}
 Regions = {1}
 MaxTerm = 2
 MaxWrites = 2
 MaxReads = 1
 MaxRestarts = 0
 MaxHist = 0
 IdScope = "store"
VIEW view
INVARIANT StateMachineSafety
INVARIANT C22ModuloCollision
INVARIANT C23ModuloCollision
CHECK_DEADLOCK FALSE
