---------------------------- MODULE RaftPropTrace ----------------------------
(* Property layer for C22 and C23.  One trace = what a real 3-store cluster did under one fault   *)
(* schedule: the commands every store applied (in apply order, with the raft index the command     *)
(* was applied at and the response the state machine computed) and the client calls               *)
(* (Store.ProposeCommand / Store.ReadCommand) with what they returned.  Every command carries a     *)
(* unique value, so a command and a response identify each other.                                  *)
(*                                                                                                *)
(*  C22  same index => same command on every store; a store applies increasing indices and never    *)
(*       skips a command another store applied; no command sits at two indices; a replica computes  *)
(*       the same response as the others; a proposal reported successful has been applied (at        *)
(*       exactly one index) and its response is the one computed for ITS command.                   *)
(*  C23  a call at a store whose peer is not leader is answered NotLeader; a successful read         *)
(*       returns the value of its key in a prefix of the region's command sequence that contains     *)
(*       every write acknowledged before the read was issued.                                       *)
(*                                                                                                *)
(* After a clean restart a store applies its log again from the start (same indices, same           *)
(* commands): "applied exactly once" is judged on log positions, see docs/design.d/raftstore.md.    *)
(* A call that never returned (store restarted, leader deposed) constrains nothing.                 *)
EXTENDS Integers, Sequences, FiniteSets, TLC, Json, IOUtils

Trace == ndJsonDeserialize(IOEnv.TRACE)
NOTFOUND == "NOTFOUND"

VARIABLES l, prop,
          log,     \* [<<region, index>> -> [cmd, k, v, wok, resp]]: the region's command sequence (union over stores)
          last,    \* [<<store, region>> -> last index applied in this incarnation]
          ever,    \* set of <<store, region, index>> applied at some time
          call,    \* [call id -> [kind, s, r, cmd, k, leader, need]]
          acked    \* set of <<region, cmd, key>>: writes acknowledged to a client
vars == <<l, prop, log, last, ever, call, acked>>

EmptyFn == [x \in {} |-> 0]
Upd(f, k, v) == [x \in (DOMAIN f) \cup {k} |-> IF x = k THEN v ELSE f[x]]
Get(f, k, d) == IF k \in DOMAIN f THEN f[k] ELSE d

Init == l = 1 /\ prop = "C22" /\ log = EmptyFn /\ last = EmptyFn /\ ever = {} /\ call = EmptyFn /\ acked = {}

ev == Trace[l]
IsEvent(name) == l <= Len(Trace) /\ ev.e = name /\ l' = l + 1
\* a verdict other than "ok" is reported with its line; the trace continues
Check(v) == v = "ok" \/ (v # "ok" /\ PrintT(<<"MISMATCH", l, v>>))

Reset == IsEvent("Reset") /\ prop' = "C22" /\ log' = EmptyFn /\ last' = EmptyFn /\ ever' = {} /\ call' = EmptyFn /\ acked' = {}
Cfg   == IsEvent("Cfg") /\ prop' = ev.prop /\ UNCHANGED <<log, last, ever, call, acked>>

Idx(r)        == {p[2] : p \in {q \in DOMAIN log : q[1] = r}}
IdxOf(r, cmd) == {i \in Idx(r) : log[<<r, i>>].cmd = cmd}

AppliedVerdict ==
    LET r == ev.r
        i == ev.idx
        sr == <<ev.s, r>>
        known == <<r, i>> \in DOMAIN log
    IN IF known /\ log[<<r, i>>].cmd # ev.cmd THEN "same-index-different-command"
       ELSE IF IdxOf(r, ev.cmd) \ {i} # {} THEN "command-applied-at-two-indices"
       ELSE IF i <= Get(last, sr, 0) THEN "index-applied-twice-or-out-of-order"
       ELSE IF \E j \in Idx(r) : j < i /\ <<ev.s, r, j>> \notin ever THEN "skipped-a-command-another-store-applied"
       ELSE IF known /\ <<ev.s, r, i>> \notin ever /\ log[<<r, i>>].resp # ev.resp THEN "replicas-computed-different-responses"
       ELSE "ok"

Applied ==
    /\ IsEvent("Applied")
    /\ (prop = "C22" => Check(AppliedVerdict))
    /\ log' = IF <<ev.r, ev.idx>> \in DOMAIN log THEN log
              ELSE Upd(log, <<ev.r, ev.idx>>, [cmd |-> ev.cmd, k |-> ev.k, v |-> ev.v, wok |-> ev.wok, resp |-> ev.resp])
    /\ last' = Upd(last, <<ev.s, ev.r>>, ev.idx)
    /\ ever' = ever \cup {<<ev.s, ev.r, ev.idx>>}
    /\ UNCHANGED <<prop, call, acked>>

Restart ==
    /\ IsEvent("Restart")
    /\ last' = [sr \in DOMAIN last |-> IF sr[1] = ev.s THEN 0 ELSE last[sr]]
    /\ UNCHANGED <<prop, log, ever, call, acked>>

ProposeCall ==
    /\ IsEvent("ProposeCall")
    /\ call' = Upd(call, ev.c, [kind |-> "w", s |-> ev.s, r |-> ev.r, cmd |-> ev.cmd, k |-> ev.k, leader |-> ev.leader, need |-> {}])
    /\ UNCHANGED <<prop, log, last, ever, acked>>

ProposeVerdict ==
    LET c == call[ev.c]
        at == IdxOf(c.r, c.cmd)
    IN IF prop = "C23"
       THEN (IF ~c.leader /\ ev.res # "notleader" THEN "non-leader-did-not-answer-NotLeader" ELSE "ok")
       ELSE IF ev.res # "ok" THEN "ok"
       ELSE IF at = {} THEN "reported-successful-but-never-applied"
       ELSE IF \E i \in at : log[<<c.r, i>>].resp # ev.resp THEN "response-of-another-command"
       ELSE "ok"

ProposeRet ==
    /\ IsEvent("ProposeRet")
    /\ Check(ProposeVerdict)
    /\ acked' = IF ev.res = "ok" /\ ev.wok THEN acked \cup {<<call[ev.c].r, call[ev.c].cmd, call[ev.c].k>>} ELSE acked
    /\ UNCHANGED <<prop, log, last, ever, call>>

ReadCall ==
    /\ IsEvent("ReadCall")
    /\ call' = Upd(call, ev.c, [kind |-> "r", s |-> ev.s, r |-> ev.r, cmd |-> "", k |-> ev.k, leader |-> ev.leader,
                                need |-> {a[2] : a \in {b \in acked : b[1] = ev.r /\ b[3] = ev.k}}])
    /\ UNCHANGED <<prop, log, last, ever, acked>>

\* value of key k after the first j entries of the region's command sequence
ValueAt(r, k, j) ==
    LET ws == {i \in Idx(r) : i <= j /\ log[<<r, i>>].k = k /\ log[<<r, i>>].wok}
    IN IF ws = {} THEN NOTFOUND ELSE log[<<r, CHOOSE i \in ws : \A h \in ws : h <= i>>].v

ReadVerdict ==
    LET c == call[ev.c]
        need == c.need                                  \* writes of this key acknowledged before the read was issued
        lost == {w \in need : IdxOf(c.r, w) = {}}
        floor == IF need \ lost = {} THEN 0
                 ELSE CHOOSE i \in Idx(c.r) : /\ log[<<c.r, i>>].cmd \in need
                                              /\ \A w \in need \ lost : \A h \in IdxOf(c.r, w) : h <= i
    IN IF prop # "C23" THEN "ok"
       ELSE IF ~c.leader /\ ev.res # "notleader" THEN "non-leader-did-not-answer-NotLeader"
       ELSE IF ev.res # "ok" THEN "ok"
       ELSE IF lost # {} THEN "acknowledged-write-never-applied"
       ELSE IF \E j \in {0} \cup Idx(c.r) : j >= floor /\ ValueAt(c.r, c.k, j) = ev.val THEN "ok"
       ELSE "stale-or-foreign-read"

ReadRet ==
    /\ IsEvent("ReadRet")
    /\ Check(ReadVerdict)
    /\ UNCHANGED <<prop, log, last, ever, call, acked>>

Next == Reset \/ Cfg \/ Applied \/ Restart \/ ProposeCall \/ ProposeRet \/ ReadCall \/ ReadRet
Spec == Init /\ [][Next]_vars

TraceAccepted ==
    LET d == TLCGet("stats").diameter
    IN PrintT(<<"TRACE_HW", d - 1, Len(Trace)>>) /\ d - 1 = Len(Trace)
=============================================================================
