SPECIFICATION Spec
CONSTANTS
 Stores = {1,2,3}
 Regions = {1,2}
 MaxTerm = 4
 MaxWrites = 4
 MaxReads = 3
 MaxRestarts = 1
 MaxHist = 14
 IdScope = "global"
INVARIANT EmitHist
CHECK_DEADLOCK FALSE
