------------------------------ MODULE RaftStore ------------------------------
(* Implementation-shaped specification of NoKV's raftstore command path (C22, C23).               *)
(*                                                                                                *)
(* etcd-raft is trusted and abstracted as a per-region consensus log: terms, elections by a       *)
(* quorum whose logs are not newer than the candidate's, a leader overwriting a follower's log,   *)
(* the commit rule (current-term entry matched on a quorum), stale leaders that have not yet      *)
(* heard of a newer term.  Message loss / duplication / reordering / partitions are the freedom   *)
(* of choosing which Replicate / BecomeLeader steps happen and whether their acknowledgement      *)
(* arrives.                                                                                       *)
(*                                                                                                *)
(* NoKV's own layer is modelled as the code has it:                                               *)
(*   ClientWrite  Store.ProposeCommand: validateCommand's leader check, a request id from the     *)
(*                per-STORE counter shared by all regions (commandPipeline.seq), the proposal      *)
(*                registered in the per-store map proposals[id], the entry appended by raft        *)
(*   apply        commandPipeline.applyEntries: EVERY store that applies an entry completes        *)
(*                proposals[entry.requestId] with the entry's response (peer.handleReady applies   *)
(*                synchronously, so applied = commit)                                              *)
(*   ReadStart / ReadDone   Store.ReadCommand: leader check, a request id taken from the same      *)
(*                counter, ReadIndex (quorum of the leader's term, an entry of that term          *)
(*                committed), WaitApplied, local read                                             *)
(*   Restart      clean close / reopen: pending proposals and the counter are in memory only, the  *)
(*                raft log, term and commit index persist; the log is applied again from the start  *)
(*                                                                                                *)
(* IdScope selects how request ids are formed:                                                    *)
(*   "store"   per-store counter starting at 1 (NoKV before fix 5ae72d3; see docs/design.d/raftstore.md) *)
(*   "origin"  store id + counter that restarts with the store (an insufficient repair)            *)
(*   "global"  unique across stores and incarnations (the repaired tree)                          *)
EXTENDS Integers, Sequences, FiniteSets, TLC, Json

CONSTANTS Stores, Regions, MaxTerm, MaxWrites, MaxReads, MaxRestarts, MaxHist, IdScope

VARIABLES term,      \* [region][store] current raft term
          role,      \* [region][store] "L" | "F"
          log,       \* [region][store] sequence of [term, id, c]; c = 0: the empty entry of a new leader
          commit,    \* [region][store] commit index = applied index
          match,     \* [region][leader][store] acknowledged match index
          seq,       \* [store] commandPipeline.seq
          inc,       \* [store] incarnation (restarts so far)
          pending,   \* [store] commandPipeline.proposals as a set of <<request id, call>>
          calls,     \* client calls in issue order: [kind, s, r, st, resp, acked, seen, tm, inc]
          taint,     \* ghost: calls completed by the application of ANOTHER command's entry
          restarts, hist
vars == <<term, role, log, commit, match, seq, inc, pending, calls, taint, restarts, hist>>
view == <<term, role, log, commit, match, seq, inc, pending, calls, taint, restarts>>

Max(S) == CHOOSE x \in S : \A y \in S : y <= x
Min2(a, b) == IF a < b THEN a ELSE b
\* minimal majorities: a larger vote / acknowledgement set is a minimal one followed by Replicate steps
Quorums == {Q \in SUBSET Stores : 2 * Cardinality(Q) > Cardinality(Stores) /\ 2 * (Cardinality(Q) - 1) <= Cardinality(Stores)}
LastTerm(l) == IF Len(l) = 0 THEN 0 ELSE l[Len(l)].term
UpToDate(a, b) == LastTerm(a) > LastTerm(b) \/ (LastTerm(a) = LastTerm(b) /\ Len(a) >= Len(b))
NumCalls(k) == Cardinality({c \in 1..Len(calls) : calls[c].kind = k})
NoCall == [kind |-> "w", s |-> 0, r |-> 0, st |-> "none", resp |-> 0, acked |-> {}, seen |-> {}, tm |-> 0, inc |-> 0]

Log(rec) == hist' = IF Len(hist) < MaxHist THEN Append(hist, rec) ELSE hist

MkId(s) == CASE IdScope = "store"  -> seq[s] + 1
             [] IdScope = "origin" -> <<s, seq[s] + 1>>
             [] OTHER              -> <<s, inc[s], seq[s] + 1>>

Init == /\ term = [r \in Regions |-> [s \in Stores |-> 0]]
        /\ role = [r \in Regions |-> [s \in Stores |-> "F"]]
        /\ log = [r \in Regions |-> [s \in Stores |-> <<>>]]
        /\ commit = [r \in Regions |-> [s \in Stores |-> 0]]
        /\ match = [r \in Regions |-> [s \in Stores |-> [f \in Stores |-> 0]]]
        /\ seq = [s \in Stores |-> 0] /\ inc = [s \in Stores |-> 0]
        /\ pending = [s \in Stores |-> {}]
        /\ calls = <<>> /\ taint = {} /\ restarts = 0 /\ hist = <<>>

\* commandPipeline.applyEntries at store x for entries lg[i..n]: the proposal registered under the
\* entry's request id - whoever proposed the entry - is completed with the entry's response
RECURSIVE ApplyAt(_, _, _, _, _)
ApplyAt(x, lg, i, n, st) ==
    IF i > n THEN st
    ELSE IF lg[i].c = 0 THEN ApplyAt(x, lg, i + 1, n, st)
    ELSE LET e   == lg[i]
             hit == {p \in st.pend[x] : p[1] = e.id}
         IN IF hit = {} THEN ApplyAt(x, lg, i + 1, n, st)
            ELSE LET p == CHOOSE q \in hit : TRUE
                 IN ApplyAt(x, lg, i + 1, n,
                        [pend  |-> [st.pend EXCEPT ![x] = @ \ {p}],
                         calls |-> [st.calls EXCEPT ![p[2]].st = "ok", ![p[2]].resp = e.c],
                         taint |-> IF e.c # p[2] THEN st.taint \cup {p[2]} ELSE st.taint])

\* ------------------------------------------------------------------ raft (abstract)
\* Stores are interchangeable: while no store of the cluster has ever been distinguished (nothing has
\* happened yet), only the election of the smallest store by the smallest quorums is explored.
Fresh == \A r \in Regions, x \in Stores : term[r][x] = 0
MinStore == CHOOSE x \in Stores : \A y \in Stores : x <= y
Canonical(s, Q) == Fresh => (s = MinStore /\ \A x \in Q, y \in Stores \ Q : x < y)

BecomeLeader(r, s, Q) ==
    /\ Q \in Quorums /\ s \in Q /\ Canonical(s, Q)
    /\ LET t == Max({term[r][q] : q \in Q}) + 1 IN
       /\ t <= MaxTerm
       /\ \A q \in Q : UpToDate(log[r][s], log[r][q])
       /\ term' = [term EXCEPT ![r] = [x \in Stores |-> IF x \in Q THEN t ELSE term[r][x]]]
       /\ role' = [role EXCEPT ![r] = [x \in Stores |-> IF x = s THEN "L" ELSE IF x \in Q THEN "F" ELSE role[r][x]]]
       /\ log' = [log EXCEPT ![r][s] = Append(@, [term |-> t, id |-> 0, c |-> 0])]
       /\ match' = [match EXCEPT ![r] = [x \in Stores |-> IF x \in Q THEN [f \in Stores |-> 0] ELSE match[r][x]]]
    /\ Log([op |-> "elect", r |-> r, s |-> s, q |-> Q])
    /\ UNCHANGED <<commit, seq, inc, pending, calls, taint, restarts>>

NewCommit(r, s, lg, m) ==
    LET ok == {i \in 1..Len(lg) : lg[i].term = term[r][s] /\
                 \E Q \in Quorums : s \in Q /\ \A q \in Q \ {s} : m[q] >= i}
    IN IF ok = {} THEN commit[r][s] ELSE Max({commit[r][s]} \cup ok)

\* leader s brings follower f up to its own log (and tells it its commit index); with ack the reply
\* reaches s, which may advance its commit index; both apply what became committed
Replicate(r, s, f, ack) ==
    /\ role[r][s] = "L" /\ f # s
    /\ IF term[r][f] > term[r][s]
       THEN /\ ack          \* the rejection deposes the stale leader
            /\ role' = [role EXCEPT ![r][s] = "F"]
            /\ term' = [term EXCEPT ![r][s] = term[r][f]]
            /\ match' = [match EXCEPT ![r][s] = [x \in Stores |-> 0]]
            /\ UNCHANGED <<log, commit, pending, calls, taint>>
       ELSE LET lg  == log[r][s]
                fc  == Max({commit[r][f], Min2(commit[r][s], Len(lg))})
                st0 == [pend |-> pending, calls |-> calls, taint |-> taint]
                st1 == ApplyAt(f, lg, commit[r][f] + 1, fc, st0)
                m2  == IF ack THEN [match[r][s] EXCEPT ![f] = Len(lg)] ELSE match[r][s]
                sc  == NewCommit(r, s, lg, m2)
                st2 == ApplyAt(s, lg, commit[r][s] + 1, sc, st1)
            IN /\ (log[r][f] # lg \/ fc # commit[r][f] \/ term[r][f] # term[r][s] \/ role[r][f] # "F" \/ m2 # match[r][s])
               /\ term' = [term EXCEPT ![r][f] = term[r][s]]
               /\ role' = [role EXCEPT ![r][f] = "F"]
               /\ log' = [log EXCEPT ![r][f] = lg]
               /\ match' = [match EXCEPT ![r][s] = m2, ![r][f] = [x \in Stores |-> 0]]
               /\ commit' = [commit EXCEPT ![r][f] = fc, ![r][s] = sc]
               /\ pending' = st2.pend /\ calls' = st2.calls /\ taint' = st2.taint
    /\ Log([op |-> "repl", r |-> r, s |-> s, f |-> f, ack |-> ack])
    /\ UNCHANGED <<seq, inc, restarts>>

\* ------------------------------------------------------------------ NoKV store layer
\* a store whose peer is not leader answers NotLeader and nothing else happens (validateCommand): that
\* branch changes no state and is not recorded
ClientWrite(r, s) ==
    /\ NumCalls("w") < MaxWrites
    /\ role[r][s] = "L"
    /\ LET c == Len(calls) + 1 IN
       /\ seq' = [seq EXCEPT ![s] = @ + 1]
       /\ pending' = [pending EXCEPT ![s] = @ \cup {<<MkId(s), c>>}]
       /\ log' = [log EXCEPT ![r][s] = Append(@, [term |-> term[r][s], id |-> MkId(s), c |-> c])]
       /\ calls' = Append(calls, [NoCall EXCEPT !.s = s, !.r = r, !.st = "pending", !.inc = inc[s]])
    /\ Log([op |-> "propose", r |-> r, s |-> s])
    /\ UNCHANGED <<term, role, commit, match, inc, taint, restarts>>

AckedWrites(r) == {c \in 1..Len(calls) : calls[c].kind = "w" /\ calls[c].st = "ok" /\ calls[c].r = r}

ReadStart(r, s) ==
    /\ NumCalls("r") < MaxReads
    /\ role[r][s] = "L"
    /\ seq' = [seq EXCEPT ![s] = @ + 1]     \* ReadCommand draws a request id from the same counter
    /\ calls' = Append(calls, [NoCall EXCEPT !.kind = "r", !.s = s, !.r = r, !.st = "pending",
                                  !.acked = AckedWrites(r), !.tm = term[r][s], !.inc = inc[s]])
    /\ Log([op |-> "read", r |-> r, s |-> s])
    /\ UNCHANGED <<term, role, log, commit, match, inc, pending, taint, restarts>>

\* the ReadIndex round: a quorum still in the leader's term answers the heartbeat, an entry of that
\* term is committed; the read then sees everything applied (applied = commit >= read index)
ReadDone(c, Q) ==
    /\ c \in 1..Len(calls) /\ calls[c].kind = "r" /\ calls[c].st = "pending"
    /\ LET s == calls[c].s
           r == calls[c].r
       IN /\ Q \in Quorums /\ s \in Q
          /\ role[r][s] = "L" /\ term[r][s] = calls[c].tm /\ inc[s] = calls[c].inc
          /\ \A q \in Q : term[r][q] = term[r][s]
          /\ commit[r][s] > 0 /\ log[r][s][commit[r][s]].term = term[r][s]
          /\ calls' = [calls EXCEPT ![c].st = "ok",
                                    ![c].seen = {log[r][s][i].c : i \in 1..commit[r][s]} \ {0}]
          /\ Log([op |-> "confirm", r |-> r, s |-> s, q |-> Q])
    /\ UNCHANGED <<term, role, log, commit, match, seq, inc, pending, taint, restarts>>

Restart(s) ==
    /\ restarts < MaxRestarts
    /\ restarts' = restarts + 1
    /\ role' = [r \in Regions |-> [role[r] EXCEPT ![s] = "F"]]
    /\ match' = [r \in Regions |-> [match[r] EXCEPT ![s] = [f \in Stores |-> 0]]]
    /\ pending' = [pending EXCEPT ![s] = {}]
    /\ seq' = [seq EXCEPT ![s] = 0]
    /\ inc' = [inc EXCEPT ![s] = @ + 1]
    /\ calls' = [c \in 1..Len(calls) |-> IF calls[c].s = s /\ calls[c].st = "pending"
                                         THEN [calls[c] EXCEPT !.st = "abandoned"] ELSE calls[c]]
    /\ Log([op |-> "restart", s |-> s])
    /\ UNCHANGED <<term, log, commit, taint>>

Next == \/ \E r \in Regions, s \in Stores, Q \in Quorums : BecomeLeader(r, s, Q)
        \/ \E r \in Regions, s \in Stores, f \in Stores, ack \in BOOLEAN : Replicate(r, s, f, ack)
        \/ \E r \in Regions, s \in Stores : ClientWrite(r, s) \/ ReadStart(r, s)
        \/ \E c \in 1..Len(calls), Q \in Quorums : ReadDone(c, Q)
        \/ \E s \in Stores : Restart(s)
Spec == Init /\ [][Next]_vars

\* ------------------------------------------------------------------ properties
\* C22 (1): replicas apply the same command sequence (raft's state machine safety: the abstraction's sanity)
StateMachineSafety ==
    \A r \in Regions, a \in Stores, b \in Stores :
        LET n == Min2(commit[r][a], commit[r][b]) IN SubSeq(log[r][a], 1, n) = SubSeq(log[r][b], 1, n)
\* C22 (2): a proposal reported successful was applied exactly once and answered with its own result
ProposalOK(c) ==
    (calls[c].kind = "w" /\ calls[c].st = "ok") =>
        /\ Cardinality({i \in 1..commit[calls[c].r][calls[c].s] : log[calls[c].r][calls[c].s][i].c = c}) = 1
        /\ calls[c].resp = c
C22 == \A c \in 1..Len(calls) : ProposalOK(c)
\* C23: a read reflects every write acknowledged before it was issued
ReadOK(c) == (calls[c].kind = "r" /\ calls[c].st = "ok") => calls[c].acked \subseteq calls[c].seen
C23 == \A c \in 1..Len(calls) : ReadOK(c)
\* a store that is not leader answers NotLeader: by construction of ClientWrite / ReadStart; a deposed
\* leader that has not noticed cannot complete a ReadIndex round (ReadDone needs a quorum of its term)

\* Witness of the request-id collision (finding C22-proposal-id-collision, repaired): a pending call was
\* completed by the application of an entry that carries another command.
C22ModuloCollision == \A c \in 1..Len(calls) : c \notin taint => ProposalOK(c)
C23ModuloCollision == \A c \in 1..Len(calls) : (calls[c].kind = "r" /\ calls[c].st = "ok") =>
                          (calls[c].acked \ taint) \subseteq calls[c].seen
NoCollision == taint = {}

EmitHist == (Len(hist) = MaxHist) => PrintT(<<"SCHED", ToJson(hist)>>)
=============================================================================
