SPECIFICATION Spec
CONSTANTS
 Stores = {1,2,3}
 Regions = {1,2}
 MaxTerm = 1
 MaxWrites = 2
 MaxReads = 0
 MaxRestarts = 0
 MaxHist = 0
 IdScope = "store"
VIEW view
INVARIANT StateMachineSafety
INVARIANT C22
CHECK_DEADLOCK FALSE
