SPECIFICATION Spec
CONSTANTS
 Stores = {1,2,3}
 Regions = {1}
 MaxTerm = 2
 MaxWrites = 1
 MaxReads = 1
 MaxRestarts = 0
 MaxHist = 0
 IdScope = "global"
VIEW view
INVARIANT StateMachineSafety
INVARIANT C22
INVARIANT C23
INVARIANT NoCollision
CHECK_DEADLOCK FALSE
