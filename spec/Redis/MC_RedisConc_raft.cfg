SPECIFICATION Spec
CONSTANTS
 Clients = {1, 2, 3}
 Ops = 2
 Detect = TRUE
 Mode = "raft"
INVARIANT NoLostUpdate
INVARIANT AtMostOneNX
CHECK_DEADLOCK FALSE
