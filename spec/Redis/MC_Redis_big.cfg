SPECIFICATION Spec
CONSTANTS
 R = 3
 Keys = {"k1","k2"}
 Vals = {"", "0", "1", "9223372036854775807", "-9223372036854775808", "x"}
 OptKeys = {"k1"}
 OptVals = {"1", "9223372036854775807", "x"}
 Deltas = {"1", "-1", "2", "9223372036854775807", "-9223372036854775808", "-9223372036854775807", "x", ""}
 Shorts = {"@S1","@S2"}
 MaxNow = 3
 MaxHist = 0
 Gen = FALSE
 AvoidLenient = FALSE
VIEW view
INVARIANT TypeOK
INVARIANT Algebra
PROPERTY StepFacts
CHECK_DEADLOCK FALSE
