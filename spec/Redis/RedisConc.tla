----------------------------- MODULE RedisConc -----------------------------
(* C30, implementation-shaped: concurrent gateway connections running INCR and SET NX as   *)
(* the backends do.                                                                         *)
(*  embedded backend (backend_embedded.go): one optimistic transaction per command:        *)
(*     Begin  readTs := newest commit timestamp; the read sees the snapshot at readTs       *)
(*     Commit under the oracle lock: if conflict detection is on and the key was committed  *)
(*            after readTs -> ErrConflict (error reply, nothing written); otherwise write   *)
(*            at a fresh commit timestamp and reply.                                        *)
(*     Options.DetectConflicts = FALSE (the default the gateway used) skips the check.      *)
(*  raft backend (backend_raft.go): Get at one TSO timestamp, then Set/mutate as a NEW      *)
(*     two-phase transaction whose start timestamp is taken after the read: the write       *)
(*     conflict check of prewrite only covers commits after that later start timestamp.     *)
(*     Mode = "raft" models this (Restart action).                                          *)
(* Ghosts: acked = sum of deltas of INCRs that replied an integer; nxok = SET NX replies OK. *)
EXTENDS Integers, FiniteSets, TLC

CONSTANTS Clients, Ops, Detect, Mode      \* Ops: commands per client; Mode \in {"embedded","raft"}

VARIABLES ctr, cver,          \* counter value and the commit timestamp of its last write
          nx, nxver,          \* SET NX key: present?, commit timestamp
          ts,                 \* newest timestamp handed out / committed
          pc, kind, rts, snap, left,
          acked, nxok
vars == <<ctr, cver, nx, nxver, ts, pc, kind, rts, snap, left, acked, nxok>>

Init == /\ ctr = 0 /\ cver = 0 /\ nx = FALSE /\ nxver = 0 /\ ts = 1
        /\ pc = [c \in Clients |-> "idle"] /\ kind = [c \in Clients |-> "incr"]
        /\ rts = [c \in Clients |-> 0] /\ snap = [c \in Clients |-> 0] /\ left = [c \in Clients |-> Ops]
        /\ acked = 0 /\ nxok = 0

\* start a command: take the read timestamp and read the snapshot
Begin(c, k) ==
    /\ pc[c] = "idle" /\ left[c] > 0
    /\ kind' = [kind EXCEPT ![c] = k]
    /\ rts' = [rts EXCEPT ![c] = ts]
    /\ snap' = [snap EXCEPT ![c] = IF k = "incr" THEN ctr ELSE (IF nx THEN 1 ELSE 0)]
    /\ pc' = [pc EXCEPT ![c] = "read"]
    /\ UNCHANGED <<ctr, cver, nx, nxver, ts, left, acked, nxok>>

\* raft backend only: the write is a new transaction with a later start timestamp
Restart(c) ==
    /\ Mode = "raft" /\ pc[c] = "read"
    /\ ~(kind[c] = "nx" /\ snap[c] = 1)
    /\ ts' = ts + 1 /\ rts' = [rts EXCEPT ![c] = ts + 1]
    /\ pc' = [pc EXCEPT ![c] = "write"]
    /\ UNCHANGED <<ctr, cver, nx, nxver, kind, snap, left, acked, nxok>>

Finish(c) == pc' = [pc EXCEPT ![c] = "idle"] /\ left' = [left EXCEPT ![c] = left[c] - 1]

Commit(c) ==
    /\ pc[c] = (IF Mode = "raft" /\ ~(kind[c] = "nx" /\ snap[c] = 1) THEN "write" ELSE "read")
    /\ Finish(c)
    /\ IF kind[c] = "incr"
       THEN IF Detect /\ cver > rts[c]
            THEN UNCHANGED <<ctr, cver, ts, acked>>                            \* conflict: error reply
            ELSE ctr' = snap[c] + 1 /\ cver' = ts + 1 /\ ts' = ts + 1 /\ acked' = acked + 1
       ELSE UNCHANGED <<ctr, cver, acked>> /\ (IF snap[c] = 1 \/ (Detect /\ nxver > rts[c]) THEN UNCHANGED ts ELSE ts' = ts + 1)
    /\ IF kind[c] = "nx"
       THEN IF snap[c] = 1 THEN UNCHANGED <<nx, nxver, nxok>>                  \* nil reply
            ELSE IF Detect /\ nxver > rts[c] THEN UNCHANGED <<nx, nxver, nxok>>  \* conflict
            ELSE nx' = TRUE /\ nxver' = ts + 1 /\ nxok' = nxok + 1
       ELSE UNCHANGED <<nx, nxver, nxok>>
    /\ UNCHANGED <<kind, rts, snap>>

Next == \E c \in Clients : (\E k \in {"incr", "nx"} : Begin(c, k)) \/ Restart(c) \/ Commit(c)
Spec == Init /\ [][Next]_vars

\* the property of C30
NoLostUpdate == ctr = acked
AtMostOneNX  == nxok <= 1
=============================================================================
