------------------------------ MODULE RespTrace ------------------------------
(* Property layer for C31.  One event = one byte stream sent to the gateway on a fresh     *)
(* connection (the tokens of a Resp.tla case), followed by end-of-stream, and what was       *)
(* observed:  {"e":"Case","toks":[..],"out":[bytes received],"alive":b,"allockib":n,"sent":n} *)
(*   1. the process is alive afterwards (a panic kills it)                                   *)
(*   2. TotalAlloc grew by at most 1 MiB + 64 x bytes sent                                   *)
(*   3. if the stream is well-formed (complete requests, optionally followed by the          *)
(*      beginning of another one) the bytes received are exactly the replies to exactly the  *)
(*      arguments of each request; an unfinished trailing request may add one error line.    *)
(* Nothing is demanded about the replies to ill-formed streams.                              *)
EXTENDS Resp, IOUtils

Trace == ndJsonDeserialize(IOEnv.TRACE)

VARIABLE l
ev == Trace[l]
IsEvent(name) == l <= Len(Trace) /\ ev.e = name /\ l' = l + 1 /\ UNCHANGED <<toks, au>>   \* (enumeration variables of Resp: unused here)
Expect(got, want, what) == got = want \/ (got # want /\ PrintT(<<"MISMATCH", l, what>>))

TInit == l = 1 /\ toks = <<>> /\ au = S0
Reset == IsEvent("Reset")

RepliesOK(o, out) ==
    LET n == Len(o.exp) IN
    IF ~o.wf THEN TRUE
    ELSE IF ~o.tail THEN out = o.exp
    ELSE /\ Len(out) >= n /\ SubSeq(out, 1, n) = o.exp
         /\ (Len(out) = n \/ out[n + 1] = "-")

Case == /\ IsEvent("Case")
        /\ LET o == Outcome(Run(S0, ev.toks, 1)) IN
           /\ Expect(ev.alive, TRUE, "dead")
           /\ Expect(ev.allockib * 16 <= 16384 + ev.sent, TRUE, "alloc")
           /\ Expect(RepliesOK(o, ev.out), TRUE, "replies")

TNext == Reset \/ Case
TSpec == TInit /\ [][TNext]_<<l, toks, au>>

TraceAccepted ==
    LET d == TLCGet("stats").diameter
    IN PrintT(<<"TRACE_HW", d - 1, Len(Trace)>>) /\ d - 1 = Len(Trace)
=============================================================================
