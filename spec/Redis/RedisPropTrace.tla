--------------------------- MODULE RedisPropTrace ---------------------------
(* Property layer for C29: a trace of one client's commands and the gateway's replies is  *)
(* accepted iff every reply equals the reply of the reference model RedisModel.Exec       *)
(* (error class, not text; the non-integer / overflow classes are compared for the INCR   *)
(* family only, which is where the property names them) and the connection is closed      *)
(* after QUIT.  Sleep events advance the logical clock by one tick (the driver sleeps     *)
(* long enough for @S1/@S2 deadlines to be decided with > 1.2 s margin either way).       *)
(* Events: {"e":"Cmd","cmd":[tokens],"r":[reply]}  {"e":"Sleep"}  {"e":"End","closed":b}  *)
EXTENDS RedisModel, Json, IOUtils

Trace == ndJsonDeserialize(IOEnv.TRACE)

VARIABLES l, st, now, open
vars == <<l, st, now, open>>

ev == Trace[l]
IsEvent(name) == l <= Len(Trace) /\ ev.e = name /\ l' = l + 1
\* ctx: what the model held for the key the command addresses (for classification of findings)
Expect(got, want, ctx) == got = want \/ (got # want /\ PrintT(<<"MISMATCH", l, want, ctx>>))

Init == l = 1 /\ st = EmptyStore /\ now = 1 /\ open = TRUE
Reset == IsEvent("Reset") /\ st' = EmptyStore /\ now' = 1 /\ open' = TRUE

KeyCtx(cmd) == IF Len(cmd) >= 2 /\ Live(st, now, cmd[2]) THEN <<"stored", st[cmd[2]].v>> ELSE <<"absent">>

Cmd == /\ IsEvent("Cmd")
       /\ open
       /\ LET x == Exec(st, now, ev.cmd) IN
          /\ Expect(Coarse(ev.cmd, ev.r), Coarse(ev.cmd, x.r), KeyCtx(ev.cmd))
          /\ st' = x.st /\ open' = ~x.quit
       /\ UNCHANGED now

Sleep == IsEvent("Sleep") /\ now' = now + 1 /\ st' = Purge(st, now + 1) /\ UNCHANGED open

\* after QUIT the server closes the connection; otherwise it stays open
End == IsEvent("End") /\ Expect(ev.closed, ~open, <<"end">>) /\ UNCHANGED <<st, now, open>>

Next == Reset \/ Cmd \/ Sleep \/ End
Spec == Init /\ [][Next]_vars

TraceAccepted ==
    LET d == TLCGet("stats").diameter
    IN PrintT(<<"TRACE_HW", d - 1, Len(Trace)>>) /\ d - 1 = Len(Trace)
=============================================================================
