SPECIFICATION Spec
CONSTANT R = 5000
POSTCONDITION TraceAccepted
CHECK_DEADLOCK FALSE
