-------------------------------- MODULE Resp --------------------------------
(* C31: the RESP request framing as a reference automaton over bytes, driven by a token    *)
(* alphabet.  Used as enumerator (TLC explores every token sequence up to Depth, pruned    *)
(* where the stream is already ill-formed, one representative per automaton state) and as  *)
(* oracle (RespTrace.tla runs the same automaton over the tokens of each recorded case).    *)
(*                                                                                          *)
(* A byte is a one-character string; "CR", "LF", "SP" name carriage return, line feed and   *)
(* space.  Well-formed requests (the only ones the property says must be parsed exactly):   *)
(*   array   *N CRLF  ( $L CRLF <L bytes> CRLF ) x N     N, L canonical decimals, L >= 0     *)
(*           N <= 0 is an empty request (no command, no reply)                              *)
(*   inline  bytes without CR / LF, not starting with '*', then CRLF; split at spaces;      *)
(*           no field = no command                                                          *)
(* Anything else makes the stream ill-formed from that byte on ("ill", absorbing): the      *)
(* property then only demands that the process survives and allocates in proportion.        *)
(* Lengths with more than 9 digits are HUGE (TLC integers are 32 bit): the frame can never  *)
(* be completed by a short stream, which is exactly the case the property is about.         *)
EXTENDS Integers, Sequences, FiniteSets, TLC, Json

CONSTANTS Depth,      \* maximal number of tokens (0: oracle use only)
          Tokens      \* token alphabet to enumerate

HUGE == 2000000000

\* token -> bytes
Bytes(t) ==
    CASE t = "CRLF" -> <<"CR", "LF">>
      [] t = "-1" -> <<"-", "1">>
      [] t = "-2" -> <<"-", "2">>
      [] t = "H256M" -> <<"$", "2", "6", "8", "4", "3", "5", "4", "5", "6", "CR", "LF">>   \* bulk header announcing 256 MiB (below every sane cap)
      [] t = "2147483648" -> <<"2", "1", "4", "7", "4", "8", "3", "6", "4", "8">>
      [] t = "9223372036854775807" -> <<"9", "2", "2", "3", "3", "7", "2", "0", "3", "6", "8", "5", "4", "7", "7", "5", "8", "0", "7">>
      [] t = "PING" -> <<"P", "I", "N", "G">>
      [] t = "A1" -> <<"*", "1", "CR", "LF">>                          \* array header announcing one argument
      [] t = "A2" -> <<"*", "2", "CR", "LF">>
      [] t = "B1" -> <<"$", "1", "CR", "LF", "a", "CR", "LF">>         \* one complete bulk string "a"
      [] t = "B0" -> <<"$", "0", "CR", "LF", "CR", "LF">>              \* one complete empty bulk string
      [] OTHER -> <<t>>          \* single bytes: "*", "$", "0", "1", "2", "x", "a", "CR", "LF", "SP"

Digit == [c \in {"0", "1", "2", "3", "4", "5", "6", "7", "8", "9"} |->
             CASE c = "0" -> 0 [] c = "1" -> 1 [] c = "2" -> 2 [] c = "3" -> 3 [] c = "4" -> 4
               [] c = "5" -> 5 [] c = "6" -> 6 [] c = "7" -> 7 [] c = "8" -> 8 [] c = "9" -> 9]
IsDigits(s) == Len(s) > 0 /\ \A i \in 1..Len(s) : s[i] \in DOMAIN Digit
RECURSIVE Val(_, _)
Val(s, i) == IF i = 0 THEN 0 ELSE 10 * Val(s, i - 1) + Digit[s[i]]
\* a header number: [ok |-> canonical?, n |-> value (negative: -1, more than 9 digits: HUGE)]
Num(s) ==
    IF IsDigits(s) /\ (Len(s) = 1 \/ s[1] # "0") THEN [ok |-> TRUE, n |-> IF Len(s) > 9 THEN HUGE ELSE Val(s, Len(s))]
    ELSE IF Len(s) >= 2 /\ s[1] = "-" /\ IsDigits(Tail(s)) /\ s[2] # "0" THEN [ok |-> TRUE, n |-> -1]
    ELSE [ok |-> FALSE, n |-> 0]

\* automaton state
S0 == [mode |-> "start", line |-> <<>>, cr |-> FALSE, need |-> 0, rem |-> 0, args |-> <<>>, cur |-> <<>>,
       cmds |-> <<>>, n |-> 0, cut |-> 0]
Ill(s) == [s EXCEPT !.mode = "ill"]
Boundary(s) == [s EXCEPT !.mode = "start", !.line = <<>>, !.cr = FALSE, !.args = <<>>, !.cur = <<>>, !.cut = s.n]

\* inline line -> fields (split at SP, empty fields dropped)
RECURSIVE Fields(_, _, _, _)
Fields(line, i, cur, acc) ==
    IF i > Len(line) THEN (IF cur = <<>> THEN acc ELSE Append(acc, cur))
    ELSE IF line[i] = "SP" THEN Fields(line, i + 1, <<>>, IF cur = <<>> THEN acc ELSE Append(acc, cur))
    ELSE Fields(line, i + 1, Append(cur, line[i]), acc)

Emit(s, args) == Boundary([s EXCEPT !.cmds = IF args = <<>> THEN s.cmds ELSE Append(s.cmds, args)])

\* a complete header / inline line (CRLF seen)
LineDone(s) ==
    CASE s.mode = "inline" -> Emit(s, Fields(s.line, 1, <<>>, <<>>))
      [] s.mode = "arrhdr" ->
            LET v == Num(s.line) IN
            IF ~v.ok THEN Ill(s)
            ELSE IF v.n <= 0 THEN Boundary(s)
            ELSE [s EXCEPT !.mode = "elem", !.need = v.n, !.line = <<>>, !.cr = FALSE]
      [] s.mode = "bulkhdr" ->
            LET v == Num(s.line) IN
            IF ~v.ok \/ v.n < 0 THEN Ill(s)          \* a null bulk is not a request argument
            ELSE [s EXCEPT !.mode = IF v.n = 0 THEN "pcr" ELSE "payload", !.rem = v.n, !.line = <<>>, !.cr = FALSE, !.cur = <<>>]

LineByte(s, c) ==
    IF c = "LF" THEN (IF s.cr THEN LineDone(s) ELSE Ill(s))
    ELSE IF s.cr THEN Ill(s)                          \* CR not followed by LF
    ELSE IF c = "CR" THEN [s EXCEPT !.cr = TRUE]
    ELSE [s EXCEPT !.line = Append(s.line, c)]

Step(s0, c) ==
    LET s == [s0 EXCEPT !.n = s0.n + 1] IN
    CASE s.mode = "ill" -> s
      [] s.mode = "start" -> IF c = "*" THEN [s EXCEPT !.mode = "arrhdr"] ELSE LineByte([s EXCEPT !.mode = "inline"], c)
      [] s.mode \in {"inline", "arrhdr", "bulkhdr"} -> LineByte(s, c)
      [] s.mode = "elem" -> IF c = "$" THEN [s EXCEPT !.mode = "bulkhdr"] ELSE Ill(s)
      [] s.mode = "payload" ->
            LET r == IF s.rem = HUGE THEN HUGE ELSE s.rem - 1 IN
            [s EXCEPT !.cur = IF s.rem = HUGE THEN <<>> ELSE Append(s.cur, c), !.rem = r, !.mode = IF r = 0 THEN "pcr" ELSE "payload"]
      [] s.mode = "pcr" -> IF c = "CR" THEN [s EXCEPT !.mode = "plf"] ELSE Ill(s)
      [] s.mode = "plf" ->
            IF c # "LF" THEN Ill(s)
            ELSE LET a == Append(s.args, s.cur)
                     left == IF s.need = HUGE THEN HUGE ELSE s.need - 1 IN
                 IF left = 0 THEN Emit(s, a)
                 ELSE [s EXCEPT !.mode = "elem", !.args = IF s.need = HUGE THEN <<>> ELSE a, !.need = left, !.cur = <<>>]

RECURSIVE Feed(_, _, _)
Feed(s, bs, i) == IF i > Len(bs) THEN s ELSE Feed(Step(s, bs[i]), bs, i + 1)
\* "P70K" stands for 70 000 payload bytes 'a' (more than the gateway's 64 KiB read chunk); it is only
\* used inside a bulk payload that has more than that left, where it just counts down
BigN == 70000
FeedTok(s, t) ==
    IF t = "P70K"
    THEN IF s.mode = "payload" /\ s.rem > BigN
         THEN [s EXCEPT !.n = s.n + BigN, !.rem = IF s.rem = HUGE THEN HUGE ELSE s.rem - BigN, !.cur = <<"P70K">>]
         ELSE Ill(s)
    ELSE Feed(s, Bytes(t), 1)
RECURSIVE Run(_, _, _)
Run(s, toks, i) == IF i > Len(toks) THEN s ELSE Run(FeedTok(s, toks[i]), toks, i + 1)

\* ------------------------------------------------------------------ what a server must answer
Lower(c) == CASE c = "P" -> "p" [] c = "I" -> "i" [] c = "N" -> "n" [] c = "G" -> "g" [] OTHER -> c
UnknownPrefix == <<"-", "E", "R", "R", "SP", "u", "n", "k", "n", "o", "w", "n", "SP", "c", "o", "m", "m", "a", "n", "d", "SP", "'">>
Pong == <<"+", "P", "O", "N", "G", "CR", "LF">>
IsPing(a) == a[1] = <<"P", "I", "N", "G">>
\* replies are reflected through PING (PONG / bulk echo) and the unknown-command error, which quotes
\* the lower-cased command name; the check calibrates that wording against the binary first
ReplyTo(a) ==
    IF IsPing(a) /\ Len(a) = 1 THEN Pong
    ELSE IF IsPing(a) /\ Len(a) = 2 /\ Len(a[2]) < 10
         THEN <<"$", ToString(Len(a[2])), "CR", "LF">> \o a[2] \o <<"CR", "LF">>
    ELSE UnknownPrefix \o [i \in 1..Len(a[1]) |-> Lower(a[1][i])] \o <<"'", "CR", "LF">>
\* commands whose reply this model does not predict (PING arity error text)
Unpredicted(a) == IsPing(a) /\ Len(a) > 2
RECURSIVE Replies(_, _)
Replies(cmds, i) == IF i > Len(cmds) THEN <<>> ELSE ReplyTo(cmds[i]) \o Replies(cmds, i + 1)

Outcome(s) == [wf     |-> s.mode # "ill" /\ \A i \in 1..Len(s.cmds) : ~Unpredicted(s.cmds[i]),
               tail   |-> s.mode \notin {"start", "ill"},
               cut    |-> s.cut,                     \* bytes that form complete requests
               ncmds  |-> Len(s.cmds),
               exp    |-> IF s.mode = "ill" THEN <<>> ELSE Replies(s.cmds, 1),
               mode   |-> s.mode]

\* ------------------------------------------------------------------ enumeration
VARIABLES toks, au
vars == <<toks, au>>
Init == toks = <<>> /\ au = S0
Next == /\ Len(toks) < Depth /\ au.mode # "ill"
        /\ \E t \in Tokens : /\ (t = "P70K" => au.mode = "payload" /\ au.rem > BigN)
                            /\ toks' = Append(toks, t) /\ au' = FeedTok(au, t)
Spec == Init /\ [][Next]_vars
\* One representative token sequence per abstract automaton state: contents are
\* projected to their shape (how far a header number has got, how many fields / arguments /
\* commands, remaining counts capped at 3).
Min(a, b) == IF a < b THEN a ELSE b
Cap(n) == IF n = HUGE THEN HUGE ELSE Min(n, 3)
NumShape(l) ==
    IF l = <<>> THEN "empty"
    ELSE IF l = <<"-">> THEN "minus"
    ELSE IF Num(l).ok THEN (IF Num(l).n = HUGE THEN "huge" ELSE IF Num(l).n < 0 THEN (IF l = <<"-", "1">> THEN "neg1" ELSE "neg") ELSE IF Num(l).n > 2 THEN "big" ELSE ToString(Num(l).n))
    ELSE "bad"
LineShape(s) ==
    IF s.mode = "inline"
    THEN LET f == Fields(s.line, 1, <<>>, <<>>) IN
         <<Min(Len(f), 3), s.line # <<>> /\ s.line[Len(s.line)] # "SP", f # <<>> /\ f[1] = <<"P", "I", "N", "G">>>>
    ELSE <<NumShape(s.line)>>
\* argument lengths (capped at 2) of the arguments collected so far and of the last complete command:
\* an empty argument in a non-last position is a shape of its own
Shape(a) == [i \in 1..Len(a) |-> Min(Len(a[i]), 2)]
Abs(s) == <<s.mode, s.cr, LineShape(s), Cap(s.need), Cap(s.rem), Shape(s.args), Min(Len(s.cur), 3), Min(Len(s.cmds), 3),
            IF s.cmds = <<>> THEN <<>> ELSE Shape(s.cmds[Len(s.cmds)]), s.n >= BigN>>
view == Abs(au)
EmitCase == toks = <<>> \/ PrintT(<<"CASE", ToJson([toks |-> toks, out |-> Outcome(au)])>>)
=============================================================================
