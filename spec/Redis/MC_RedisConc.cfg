SPECIFICATION Spec
CONSTANTS
 Clients = {1, 2, 3}
 Ops = 2
 Detect = TRUE
 Mode = "embedded"
INVARIANT NoLostUpdate
INVARIANT AtMostOneNX
CHECK_DEADLOCK FALSE
