------------------------------- MODULE Redis -------------------------------
(* C29: one client talking to a Redis server, as a state machine over RedisModel.Exec.   *)
(* M1: TLC explores every command of the alphabet in every reachable store (2 keys, the  *)
(*     value set of DESIGN.md) and checks the sanity invariants below.                    *)
(* M2: with Gen = TRUE parameters are drawn with RandomElement and `hist` records the     *)
(*     command sequence; EmitHist prints every completed behaviour as JSON (-simulate).   *)
EXTENDS RedisModel, Json

CONSTANTS Keys,        \* e.g. {"k1","k2"}
          Vals,        \* values written by SET / MSET
          OptKeys,     \* keys used together with SET options (subset of Keys)
          OptVals,     \* values used together with SET options / second MSET pair (subset of Vals)
          Deltas,      \* INCRBY / DECRBY arguments
          Shorts,      \* {} or {"@S1","@S2"}: expiries that need real sleeps (thorough tier)
          MaxNow,      \* Sleep ticks allowed
          MaxHist,     \* behaviour length in generation mode (0: no history)
          Gen,         \* TRUE: sample parameters (simulation); FALSE: enumerate (model checking)
          AvoidLenient \* TRUE: do not generate INCR-family commands on a stored "" (recorded finding)

VARIABLES st, now, open, last, hist
vars == <<st, now, open, last, hist>>

\* (the reference to `hist` keeps TLC from evaluating the random draw once as a constant)
Pick(S) == IF Gen THEN {RandomElement(IF Len(hist) >= 0 THEN S ELSE {})} ELSE S

CondOpts == {<<>>, <<"NX">>, <<"XX">>, <<"NX", "XX">>, <<"NX", "NX">>}
ExpOpts ==
    {<<>>, <<"EX", "@LONG">>, <<"PX", "@LONG">>, <<"EXAT", "@PAST">>, <<"EXAT", "@FUT">>, <<"PXAT", "@PAST">>,
     <<"PXAT", "@FUT">>, <<"EX", "0">>, <<"PX", "-1">>, <<"EXAT", "x">>, <<"PXAT", "">>, <<"EX", "-9223372036854775808">>,
     <<"EX">>, <<"EX", "@LONG", "PX", "@LONG">>, <<"BOGUS">>, <<"EXAT", "0">>}
    \cup {<<o, s>> : o \in {"EX", "PX"}, s \in Shorts}
\* conditions before or after the expiry
SetOpts == {c \o e : c \in CondOpts, e \in ExpOpts} \cup {e \o c : c \in {<<"NX">>, <<"XX">>}, e \in ExpOpts}

KeySeqs == {<<a>> : a \in Keys} \cup {<<a, b>> : a \in Keys, b \in Keys}
Junk == {"", "x"}   \* extra arguments for arity errors

Commands ==
         {<<"PING">>, <<"PING", "">>, <<"PING", "x">>, <<"PING", "x", "x">>, <<"ECHO">>, <<"ECHO", "">>, <<"ECHO", "x">>,
          <<"ECHO", "x", "x">>, <<"NOSUCH", "x">>, <<"GET">>, <<"DEL">>, <<"EXISTS">>, <<"MGET">>, <<"SET">>, <<"MSET">>,
          <<"INCR">>, <<"DECR">>, <<"INCRBY">>, <<"DECRBY">>}
    \cup {<<"GET", k>> : k \in Keys} \cup {<<"GET", k, j>> : k \in Keys, j \in Junk}
    \cup {<<"SET", k>> : k \in Keys}
    \cup {<<c>> \o ks : c \in {"DEL", "EXISTS", "MGET"}, ks \in KeySeqs}
    \cup {<<"MSET", k>> : k \in Keys} \cup {<<"MSET", k, v, j>> : k \in Keys, v \in Vals, j \in Keys}
    \cup {<<c, k>> : c \in {"INCR", "DECR"}, k \in Keys} \cup {<<c, k, "1">> : c \in {"INCR", "DECR"}, k \in Keys}
    \cup {<<c, k>> : c \in {"INCRBY", "DECRBY"}, k \in Keys}
    \cup {<<c, k, "1", "1">> : c \in {"INCRBY", "DECRBY"}, k \in Keys}

\* one action per command kind (simulation picks an action, then parameters)
Do(cmd) ==
    LET x == Exec(st, now, cmd) IN
    /\ open
    /\ x.r # Range
    /\ ~(AvoidLenient /\ cmd[1] \in IncrFamily /\ Len(cmd) >= 2 /\ Live(st, now, cmd[2]) /\ st[cmd[2]].v = "")
    /\ st' = x.st /\ open' = ~x.quit /\ last' = [cmd |-> cmd, r |-> x.r]
    /\ hist' = IF Len(hist) < MaxHist THEN Append(hist, cmd) ELSE hist
    /\ UNCHANGED now

Misc   == \E c \in Pick(Commands) : Do(c)
Get    == \E k \in Pick(Keys) : Do(<<"GET", k>>)
Set    == \E k \in Pick(OptKeys), v \in Pick(OptVals), o \in Pick(SetOpts) : Do(<<"SET", k, v>> \o o)
\* short expiries and the sleeps that decide them get their own actions so that simulation meets them often
SetShort == Shorts # {} /\ \E k \in Pick(Keys), v \in Pick(Vals), o \in Pick({"EX", "PX"}), t \in Pick(Shorts) : Do(<<"SET", k, v, o, t>>)
\* expiry semantics on keys that are alive get their own actions (a uniform draw from SetOpts meets them rarely):
\* a valid expiry option, an absolute expiry already in the past (the key must end up absent), and a
\* conditional / plain SET without expiry on a key that may carry a TTL (the TTL must be dropped)
LiveKeys == {k \in Keys : Live(st, now, k)}
SetTtl  == \E k \in Pick(OptKeys), v \in Pick(OptVals), o \in Pick({<<"EX", "@LONG">>, <<"PX", "@LONG">>, <<"EXAT", "@FUT">>, <<"PXAT", "@FUT">>}) :
              Do(<<"SET", k, v>> \o o)
SetPast == LiveKeys # {} /\ \E k \in Pick(LiveKeys), v \in Pick(OptVals), o \in Pick({"EXAT", "PXAT"}) : Do(<<"SET", k, v, o, "@PAST">>)
SetCond == \E k \in Pick(Keys), v \in Pick(OptVals), c \in Pick({"NX", "XX"}) : Do(<<"SET", k, v, c>>)
SetP   == \E k \in Pick(Keys), v \in Pick(Vals) : Do(<<"SET", k, v>>)
Del    == \E ks \in Pick(KeySeqs) : Do(<<"DEL">> \o ks)
Exists == \E ks \in Pick(KeySeqs) : Do(<<"EXISTS">> \o ks)
MGet   == \E ks \in Pick(KeySeqs) : Do(<<"MGET">> \o ks)
MSet   == \/ \E k \in Pick(Keys), v \in Pick(Vals) : Do(<<"MSET", k, v>>)
          \/ \E k \in Pick(Keys), v \in Pick(Vals), j \in Pick(Keys), w \in Pick(OptVals) : Do(<<"MSET", k, v, j, w>>)
Incr   == \E k \in Pick(Keys), c \in Pick({"INCR", "DECR"}) : Do(<<c, k>>)
IncrBy == \E k \in Pick(Keys), c \in Pick({"INCRBY", "DECRBY"}), d \in Pick(Deltas) : Do(<<c, k, d>>)
Quit   == Len(hist) >= MaxHist - 1 /\ Do(<<"QUIT">>)
Sleep  == /\ open /\ now < MaxNow /\ now' = now + 1 /\ st' = Purge(st, now + 1)
          /\ \E k \in DOMAIN st : st[k].exp \notin {NoExp, Fut}       \* only when it can matter
          /\ last' = [cmd |-> <<"SLEEP">>, r |-> <<>>]
          /\ hist' = IF Len(hist) < MaxHist THEN Append(hist, <<"SLEEP">>) ELSE hist
          /\ UNCHANGED open

Init == st = EmptyStore /\ now = 1 /\ open = TRUE /\ last = [cmd |-> <<>>, r |-> <<>>] /\ hist = <<>>
Sleep2 == Sleep
Sleep3 == Sleep
Next == Misc \/ Get \/ Set \/ SetP \/ SetTtl \/ SetPast \/ SetCond \/ SetShort \/ Del \/ Exists \/ MGet \/ MSet \/ Incr \/ IncrBy \/ Quit \/ Sleep \/ Sleep2 \/ Sleep3
Spec == Init /\ [][Next]_vars

view == <<st, now, open>>      \* `last` and `hist` are ghosts; facts about `last` are action properties

\* ------------------------------------------------------------------ M1 sanity
TypeOK ==
    /\ DOMAIN st \subseteq Keys
    /\ \A k \in DOMAIN st : st[k].exp = NoExp \/ st[k].exp > now          \* no dead key is kept
    /\ now \in 1..MaxNow
\* INCR then DECR restores the value; EXISTS agrees with GET
Algebra == \A k \in Keys :
              /\ (Exec(st, now, <<"EXISTS", k>>).r = <<":1">>) = (Exec(st, now, <<"GET", k>>).r # Nil)
              /\ LET a == Exec(st, now, <<"INCR", k>>) IN
                   Head(a.r) \notin {"-NOTINT", "-OVERFLOW", "?RANGE"} =>
                       LET b == Exec(a.st, now, <<"DECR", k>>) IN
                       b.r = <<":" \o (IF k \in DOMAIN st THEN st[k].v ELSE "0")>>

\* facts about the step just taken (checked on every transition, also into known states)
IsCmd(name) == last'.cmd # <<>> /\ last'.cmd[1] = name
\* a successful INCR-family reply is the canonical text now stored
IntsCanonicalA ==
    (last'.cmd # <<>> /\ last'.cmd[1] \in IncrFamily /\ Head(last'.r) \notin {"-ERR", "-NOTINT", "-OVERFLOW"})
        => /\ Len(last'.cmd) >= 2 /\ last'.cmd[2] \in DOMAIN st'
           /\ IsInt(st'[last'.cmd[2]].v) /\ last'.r = <<":" \o st'[last'.cmd[2]].v>>
\* read-your-write: after SET replied OK a GET returns the value (or nil for a past deadline)
SetThenGetA ==
    (IsCmd("SET") /\ last'.r = Ok)
        => LET k == last'.cmd[2] IN
           \/ Exec(st', now', <<"GET", k>>).r = Bulk(last'.cmd[3])
           \/ (\E i \in 4..Len(last'.cmd) : last'.cmd[i] = "@PAST") /\ Exec(st', now', <<"GET", k>>).r = Nil
\* errors and nil replies never change the data
ErrorsAreNoOpsA == (last'.r \in {Err, NotInt, Ovf, Nil} /\ last'.cmd # <<"SLEEP">>) => st' = st
QuitClosesA == (open' = FALSE) <=> (IsCmd("QUIT") \/ ~open)
StepFacts == [][IntsCanonicalA /\ SetThenGetA /\ ErrorsAreNoOpsA /\ QuitClosesA]_vars

\* ------------------------------------------------------------------ M2
EmitHist == (Len(hist) = MaxHist /\ MaxHist > 0) => PrintT(<<"SCHED", ToJson(hist)>>)
=============================================================================
