SPECIFICATION Spec
CONSTANT R = 1200
POSTCONDITION TraceAccepted
CHECK_DEADLOCK FALSE
