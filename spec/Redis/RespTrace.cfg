SPECIFICATION TSpec
CONSTANTS
 Depth = 0
 Tokens = {}
POSTCONDITION TraceAccepted
CHECK_DEADLOCK FALSE
