SPECIFICATION Spec
CONSTANTS
 Depth = 6
 Tokens = {"*", "$", "-1", "0", "1", "2", "2147483648", "9223372036854775807", "x", "a", "CRLF", "CR", "LF", "SP", "PING", "A1", "B1", "A2", "B0", "-2", "H256M", "P70K"}
VIEW view
INVARIANT EmitCase
CHECK_DEADLOCK FALSE
