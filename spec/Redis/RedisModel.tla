---------------------------- MODULE RedisModel ----------------------------
(* Reference model of the Redis commands named by property C29, as pure operators:      *)
(*     Exec(store, now, cmd) = [r |-> reply, st |-> store', quit |-> BOOLEAN]           *)
(* `cmd` is the token sequence a client sends (<<"SET","k","v","NX">>), upper-case      *)
(* command and option names.  Redis.tla explores it (M1) and generates behaviours (M2); *)
(* RedisPropTrace.tla judges recorded gateway replies with the same operators (M3).     *)
(*                                                                                      *)
(* int64 without 64-bit integers (TLC ints are 32 bit).  A number is <<anchor, off>>:   *)
(*   <<"Z",o>> = o        <<"MAX",o>> = 2^63-1+o (o <= 0)       <<"MIN",o>> = -2^63+o (o >= 0)  *)
(* with |o| <= R.  Fmt produces the canonical decimal text by string concatenation on    *)
(* the low nine digits; ParseTab is its inverse.  Exactly the canonical texts are        *)
(* integers ("", "x", "+1", "01", " 1", "-0" are not): Redis' string2ll rule.            *)
(* A result that leaves the window |o| <= R is reported as "?RANGE" (a limit of the     *)
(* model, never a verdict: generators avoid it, the check treats it as undecided).       *)
(*                                                                                      *)
(* Time is a logical tick `now`; a key with deadline d is dead iff now >= d.             *)
(* Expiry arguments are symbolic tokens that the driver replaces by real numbers:        *)
(*   @PAST / @FUT  (EXAT, PXAT)  absolute times >= 1 h away from the wall clock          *)
(*   @LONG         (EX, PX)      >= 1 h                                                  *)
(*   @S1 / @S2     (EX, PX)      dead after one / two Sleep ticks (thorough tier only)   *)
EXTENDS Integers, Sequences, FiniteSets, TLC

CONSTANT R                       \* half-width of the integer windows

NoExp == -1
Past  == 0
Fut   == 1000000

\* ------------------------------------------------------------------ int64
Z(o) == <<"Z", o>>
IntReps == ({"Z"} \X (-R..R)) \cup ({"MAX"} \X (-R..0)) \cup ({"MIN"} \X (0..R))

Fmt(a) == CASE a[1] = "Z"   -> ToString(a[2])
            [] a[1] = "MAX" -> "9223372036" \o ToString(854775807 + a[2])
            [] a[1] = "MIN" -> "-9223372036" \o ToString(854775808 - a[2])

\* inverse of Fmt, built by halving (n log n; a CHOOSE per text would be quadratic in R)
RECURSIVE Tab(_, _, _)
Tab(anchor, lo, hi) == IF lo = hi THEN Fmt(<<anchor, lo>>) :> <<anchor, lo>>
                       ELSE LET m == (lo + hi) \div 2 IN Tab(anchor, lo, m) @@ Tab(anchor, m + 1, hi)
ParseTab == Tab("Z", -R, R) @@ Tab("MAX", -R, 0) @@ Tab("MIN", 0, R)
IsInt(s) == s \in DOMAIN ParseTab
Parse(s) == ParseTab[s]

InWin(a) == a \in IntReps
\* mathematical sum with the int64 range check; OVF / RANGE otherwise (tuples too: TLC cannot
\* compare a tuple with a string)
OVF == <<"OVF", 0>>   RANGE == <<"RANGE", 0>>   NOTINT == <<"NOTINT", 0>>
Add(a, b) ==
    LET o == a[2] + b[2]
        pair == {a[1], b[1]}
    IN CASE pair = {"Z"}          -> IF InWin(Z(o)) THEN Z(o) ELSE RANGE
         [] pair = {"Z", "MAX"}   -> IF o > 0 THEN OVF ELSE IF InWin(<<"MAX", o>>) THEN <<"MAX", o>> ELSE RANGE
         [] pair = {"Z", "MIN"}   -> IF o < 0 THEN OVF ELSE IF InWin(<<"MIN", o>>) THEN <<"MIN", o>> ELSE RANGE
         [] pair = {"MAX", "MIN"} -> IF InWin(Z(o - 1)) THEN Z(o - 1) ELSE RANGE
         [] pair = {"MAX"}        -> OVF
         [] pair = {"MIN"}        -> OVF
\* negation; -(-2^63) does not exist
Neg(a) == CASE a[1] = "Z"   -> Z(-a[2])
            [] a[1] = "MAX" -> IF 1 - a[2] <= R THEN <<"MIN", 1 - a[2]>> ELSE RANGE
            [] a[1] = "MIN" -> IF a[2] = 0 THEN OVF ELSE <<"MAX", 1 - a[2]>>

\* ------------------------------------------------------------------ store
\* store: [key -> [v |-> string, exp |-> NoExp or deadline tick]], present keys only
EmptyStore == [k \in {} |-> [v |-> "", exp |-> NoExp]]
Put(st, k, rec) == [x \in (DOMAIN st) \cup {k} |-> IF x = k THEN rec ELSE st[x]]
Drop(st, k) == [x \in (DOMAIN st) \ {k} |-> st[x]]
Live(st, now, k) == k \in DOMAIN st /\ (st[k].exp = NoExp \/ now < st[k].exp)
\* expired keys behave as absent: the store is kept free of them
Purge(st, now) == [x \in {k \in DOMAIN st : Live(st, now, k)} |-> st[x]]

\* ------------------------------------------------------------------ replies
\* a reply is a sequence of strings: <<"+OK">>, <<"nil">>, <<":5">>, <<"$val">>, <<"-ERR">>,
\* <<"-NOTINT">>, <<"-OVERFLOW">>, <<"+PONG">>, arrays <<"*", item, ...>> with items "$val" / "nil"
Ok == <<"+OK">>   Nil == <<"nil">>   Err == <<"-ERR">>   NotInt == <<"-NOTINT">>   Ovf == <<"-OVERFLOW">>
Range == <<"?RANGE">>
IntReply(a) == <<":" \o Fmt(a)>>
Bulk(s) == <<"$" \o s>>
Res(r, st) == [r |-> r, st |-> st, quit |-> FALSE]

\* ------------------------------------------------------------------ SET
ExpireOpts == {"EX", "PX", "EXAT", "PXAT"}
\* class of an expiry argument: what Redis does with it
TimeClass(opt, tok) ==
    CASE tok \in {"@LONG", "@S1", "@S2"} /\ opt \in {"EX", "PX"}   -> tok
      [] tok \in {"@PAST", "@FUT"} /\ opt \in {"EXAT", "PXAT"}     -> tok
      [] IsInt(tok) -> IF Parse(tok)[1] = "MIN" \/ (Parse(tok)[1] = "Z" /\ Parse(tok)[2] <= 0) THEN "nonpos"
                       ELSE "range"           \* a literal positive duration: outside the model (no wall clock)
      [] OTHER      -> "notint"               \* "", "x", a symbolic token under the wrong option
Deadline(cls, now) == CASE cls = "@LONG" -> Fut [] cls = "@FUT" -> Fut [] cls = "@PAST" -> Past
                        [] cls = "@S1" -> now + 1 [] cls = "@S2" -> now + 2

\* left-to-right option scan; any malformed option list is a syntax error
RECURSIVE ScanSet(_, _, _)
ScanSet(opts, i, acc) ==
    IF acc.bad \/ i > Len(opts) THEN acc
    ELSE LET o == opts[i] IN
         CASE o = "NX" -> ScanSet(opts, i + 1, [acc EXCEPT !.nx = TRUE, !.bad = acc.xx])
           [] o = "XX" -> ScanSet(opts, i + 1, [acc EXCEPT !.xx = TRUE, !.bad = acc.nx])
           [] o \in ExpireOpts ->
                IF acc.eopt # "" \/ i + 1 > Len(opts) THEN [acc EXCEPT !.bad = TRUE]
                ELSE ScanSet(opts, i + 2, [acc EXCEPT !.eopt = o, !.etok = opts[i + 1]])
           [] OTHER -> [acc EXCEPT !.bad = TRUE]

ExecSet(st, now, k, v, opts) ==
    LET p == ScanSet(opts, 1, [nx |-> FALSE, xx |-> FALSE, eopt |-> "", etok |-> "", bad |-> FALSE])
        cls == IF p.eopt = "" THEN "none" ELSE TimeClass(p.eopt, p.etok)
    IN IF p.bad THEN Res(Err, st)
       ELSE IF cls = "notint" THEN Res(NotInt, st)
       ELSE IF cls = "nonpos" THEN Res(Err, st)
       ELSE IF cls = "range" THEN Res(Range, st)
       ELSE IF (p.nx /\ Live(st, now, k)) \/ (p.xx /\ ~Live(st, now, k)) THEN Res(Nil, st)
       ELSE LET d == IF cls = "none" THEN NoExp ELSE Deadline(cls, now)
            IN Res(Ok, Purge(Put(st, k, [v |-> v, exp |-> d]), now))

\* ------------------------------------------------------------------ multi-key commands
RECURSIVE DelKeys(_, _, _, _, _)
DelKeys(st, now, keys, i, n) ==
    IF i > Len(keys) THEN [st |-> st, n |-> n]
    ELSE IF Live(st, now, keys[i]) THEN DelKeys(Drop(st, keys[i]), now, keys, i + 1, n + 1)
    ELSE DelKeys(st, now, keys, i + 1, n)

RECURSIVE CountLive(_, _, _, _)
CountLive(st, now, keys, i) ==
    IF i > Len(keys) THEN 0 ELSE (IF Live(st, now, keys[i]) THEN 1 ELSE 0) + CountLive(st, now, keys, i + 1)

RECURSIVE MSetPairs(_, _, _)
MSetPairs(st, kv, i) ==
    IF i > Len(kv) THEN st ELSE MSetPairs(Put(st, kv[i], [v |-> kv[i + 1], exp |-> NoExp]), kv, i + 2)

Item(st, now, k) == IF Live(st, now, k) THEN "$" \o st[k].v ELSE "nil"

\* ------------------------------------------------------------------ INCR family
\* delta is an IntRep, "NOTINT" or "OVF" (already decided from the argument)
ExecIncr(st, now, k, delta) ==
    IF delta = NOTINT THEN Res(NotInt, st)
    ELSE IF delta = OVF THEN Res(Ovf, st)
    ELSE IF delta = RANGE THEN Res(Range, st)
    ELSE IF Live(st, now, k) /\ ~IsInt(st[k].v) THEN Res(NotInt, st)
    ELSE LET cur == IF Live(st, now, k) THEN Parse(st[k].v) ELSE Z(0)
             sum == Add(cur, delta)
         IN IF sum = OVF THEN Res(Ovf, st)
            ELSE IF sum = RANGE THEN Res(Range, st)
            ELSE Res(IntReply(sum), Put(st, k, [v |-> Fmt(sum), exp |-> IF Live(st, now, k) THEN st[k].exp ELSE NoExp]))

DeltaArg(tok) == IF IsInt(tok) THEN Parse(tok) ELSE NOTINT
\* DECRBY negates its argument; -2^63 cannot be negated ("decrement would overflow")
NegDeltaArg(tok) == IF IsInt(tok) THEN Neg(Parse(tok)) ELSE NOTINT

\* ------------------------------------------------------------------ dispatch
From(n, s) == SubSeq(s, n, Len(s))
Exec(st0, now, cmd) ==
    LET st == Purge(st0, now)
        c == cmd[1]
        n == Len(cmd)
    IN CASE c = "PING"   -> IF n = 1 THEN Res(<<"+PONG">>, st) ELSE IF n = 2 THEN Res(Bulk(cmd[2]), st) ELSE Res(Err, st)
         [] c = "ECHO"   -> IF n = 2 THEN Res(Bulk(cmd[2]), st) ELSE Res(Err, st)
         [] c = "QUIT"   -> [r |-> Ok, st |-> st, quit |-> TRUE]
         [] c = "GET"    -> IF n # 2 THEN Res(Err, st) ELSE Res(IF Live(st, now, cmd[2]) THEN Bulk(st[cmd[2]].v) ELSE Nil, st)
         [] c = "SET"    -> IF n < 3 THEN Res(Err, st) ELSE ExecSet(st, now, cmd[2], cmd[3], From(4, cmd))
         [] c = "DEL"    -> IF n < 2 THEN Res(Err, st)
                            ELSE LET d == DelKeys(st, now, From(2, cmd), 1, 0) IN Res(IntReply(Z(d.n)), d.st)
         [] c = "EXISTS" -> IF n < 2 THEN Res(Err, st) ELSE Res(IntReply(Z(CountLive(st, now, From(2, cmd), 1))), st)
         [] c = "MGET"   -> IF n < 2 THEN Res(Err, st) ELSE Res(<<"*">> \o [i \in 1..(n - 1) |-> Item(st, now, cmd[i + 1])], st)
         [] c = "MSET"   -> IF n < 3 \/ n % 2 = 0 THEN Res(Err, st) ELSE Res(Ok, MSetPairs(st, From(2, cmd), 1))
         [] c = "INCR"   -> IF n # 2 THEN Res(Err, st) ELSE ExecIncr(st, now, cmd[2], Z(1))
         [] c = "DECR"   -> IF n # 2 THEN Res(Err, st) ELSE ExecIncr(st, now, cmd[2], Z(-1))
         [] c = "INCRBY" -> IF n # 3 THEN Res(Err, st) ELSE ExecIncr(st, now, cmd[2], DeltaArg(cmd[3]))
         [] c = "DECRBY" -> IF n # 3 THEN Res(Err, st) ELSE ExecIncr(st, now, cmd[2], NegDeltaArg(cmd[3]))
         [] OTHER        -> Res(Err, st)

IncrFamily == {"INCR", "DECR", "INCRBY", "DECRBY"}
\* The property names the non-integer and overflow errors of the INCR family only; for every
\* other command an error is an error (class, not text).
Coarse(cmd, r) == IF cmd[1] \notin IncrFamily /\ r \in {NotInt, Ovf} THEN Err ELSE r

\* ------------------------------------------------------------------ sanity of the arithmetic (checked by TLC at start-up)
Small == {a \in IntReps : a[2] \in -2..2}
ASSUME \A a \in IntReps : Parse(Fmt(a)) = a
ASSUME \A a, b \in Small : Add(a, b) = Add(b, a)
ASSUME \A a \in Small : Neg(a) = OVF \/ Add(a, Neg(a)) = Z(0)
ASSUME Fmt(<<"MAX", 0>>) = "9223372036854775807" /\ Fmt(<<"MIN", 0>>) = "-9223372036854775808"
ASSUME Fmt(<<"MAX", -1>>) = "9223372036854775806" /\ Fmt(<<"MIN", 1>>) = "-9223372036854775807"
ASSUME Add(<<"MAX", 0>>, Z(1)) = OVF /\ Add(<<"MIN", 0>>, Z(-1)) = OVF /\ Add(<<"MAX", 0>>, <<"MIN", 0>>) = Z(-1)
ASSUME ~IsInt("") /\ ~IsInt("x") /\ ~IsInt("-0") /\ IsInt("0") /\ IsInt("-1")
=============================================================================
