--------------------------- MODULE RedisConcTrace ---------------------------
(* Property layer for C30.  One trace = one concurrent run: the counter's initial value,   *)
(* every INCR-family reply of every client (in any order: the sum does not depend on it),  *)
(* every SET NX reply, and the final GET.                                                   *)
(*   final counter = initial + sum of the deltas of the commands that replied an integer    *)
(*   at most one SET NX on an absent key replies OK                                         *)
(* Events: {"e":"Start","k":key,"has":b,"init":s}  {"e":"Incr","k":key,"d":signed delta,"ok":b} *)
(*         {"e":"NX","k":key,"ok":b}  {"e":"Final","k":key,"has":b,"v":s}                    *)
EXTENDS RedisModel, Json, IOUtils

Trace == ndJsonDeserialize(IOEnv.TRACE)

VARIABLES l, sum, won        \* sum: [counter key -> IntRep or RANGE], present keys only
vars == <<l, sum, won>>

ev == Trace[l]
IsEvent(name) == l <= Len(Trace) /\ ev.e = name /\ l' = l + 1
Expect(got, want) == got = want \/ (got # want /\ PrintT(<<"MISMATCH", l, want>>))
NoSums == [k \in {} |-> Z(0)]
With(f, k, v) == [x \in (DOMAIN f) \cup {k} |-> IF x = k THEN v ELSE f[x]]

Init == l = 1 /\ sum = NoSums /\ won = {}
Reset == IsEvent("Reset") /\ sum' = NoSums /\ won' = {}

\* initial value of a counter (an absent counter is not in `sum`)
Start == /\ IsEvent("Start")
         /\ sum' = IF ~ev.has THEN sum ELSE With(sum, ev.k, IF IsInt(ev.init) THEN Parse(ev.init) ELSE RANGE)
         /\ UNCHANGED won

Incr == /\ IsEvent("Incr")
        /\ IF ev.ok
           THEN LET cur == IF ev.k \in DOMAIN sum THEN sum[ev.k] ELSE Z(0) IN
                sum' = With(sum, ev.k, IF cur \in IntReps /\ IsInt(ev.d) THEN Add(cur, Parse(ev.d)) ELSE RANGE)
           ELSE UNCHANGED sum
        /\ UNCHANGED won

NX == /\ IsEvent("NX")
      /\ IF ev.ok THEN Expect(ev.k \in won, FALSE) /\ won' = won \cup {ev.k} ELSE UNCHANGED won
      /\ UNCHANGED sum

Final == /\ IsEvent("Final")
         /\ LET h == ev.k \in DOMAIN sum IN
            Expect(<<ev.has, ev.v>>, IF ~h THEN <<FALSE, "">> ELSE IF sum[ev.k] \in IntReps THEN <<TRUE, Fmt(sum[ev.k])>> ELSE <<TRUE, "?RANGE">>)
         /\ UNCHANGED <<sum, won>>

Next == Reset \/ Start \/ Incr \/ NX \/ Final
Spec == Init /\ [][Next]_vars

TraceAccepted ==
    LET d == TLCGet("stats").diameter
    IN PrintT(<<"TRACE_HW", d - 1, Len(Trace)>>) /\ d - 1 = Len(Trace)
=============================================================================
