SPECIFICATION Spec
CONSTANTS
 R = 1000
 Keys = {"k1","k2"}
 Vals = {"", "0", "1", "9223372036854775807", "-9223372036854775808", "x"}
 OptKeys = {"k1","k2"}
 OptVals = {"", "0", "1", "9223372036854775807", "-9223372036854775808", "x"}
 Deltas = {"1", "-1", "2", "9223372036854775807", "-9223372036854775808", "-9223372036854775807", "9223372036854775806", "x", ""}
 Shorts = {}
 MaxNow = 1
 MaxHist = 12
 Gen = TRUE
 AvoidLenient = TRUE
INVARIANT EmitHist
CHECK_DEADLOCK FALSE
