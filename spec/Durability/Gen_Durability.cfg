SPECIFICATION Spec
CONSTANTS
 MaxBatches = 8
 BatchSizes = {1,2,3}
 Cap = 3
 SyncWrites = TRUE
 Spill = FALSE
 MaxHist = 14
 Keys = {1,2,3,4}
 NBuckets = 1
 VCap = 2
 MaxGC = 4
 MaxCrash = 0
 FlushWorkers = 1
 GcSync = TRUE
 GcExact = TRUE
INVARIANT EmitHist
CHECK_DEADLOCK FALSE
