SPECIFICATION Spec
CONSTANTS
 MaxBatches = 8
 BatchSizes = {1,2,3}
 Cap = 3
 SyncWrites = TRUE
 Spill = FALSE
 MaxHist = 14
INVARIANT EmitHist
CHECK_DEADLOCK FALSE
