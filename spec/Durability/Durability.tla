----------------------------- MODULE Durability -----------------------------
(* Implementation-shaped specification of what NoKV's write path puts on disk and when,      *)
(* and of what recovery reads back after a PROCESS crash (user-space buffers and memory are   *)
(* lost, everything handed to the kernel survives).                                           *)
(*                                                                                            *)
(*   db_write.go commitWorker:  vlog.write -> applyRequests -> [SyncWrites: wal.Sync] -> ack   *)
(*   lsm.SetBatch:              per memtable: wal.Append (into a bufio buffer) + index insert, *)
(*                              the batch is SPLIT when the memtable fills up                  *)
(*   lsm.rotateLocked:          wal.SwitchSegment = flush buffer + fsync old segment           *)
(*   levelManager.flush:        build SST, manifest LogEdits{AddFile, LogPointer}, remove WAL  *)
(*   LSM.recovery:              remove segments <= log pointer, replay the others              *)
(*                                                                                            *)
(* Records are <<batch index, position in batch>>; a batch is a transaction (or one plain      *)
(* write). Ghost: accepted = number of batches handed to the engine, acked = number answered.  *)
(* Properties (RecoveryProp): C10 recovered = records of a prefix of the accepted batches,     *)
(* no batch partially present; C09 (SyncWrites) the prefix covers every acknowledged batch.    *)
EXTENDS Integers, Sequences, FiniteSets, SequencesExt, FiniteSetsExt, TLC, Json

CONSTANTS MaxBatches,     \* batches issued by the single client
          BatchSizes,     \* possible batch sizes, e.g. {1, 2}
          Cap,            \* records a memtable takes before it is rotated
          SyncWrites,     \* BOOLEAN
          Spill,          \* BOOLEAN: the WAL's bufio buffer may overflow into the file at any time
          MaxHist

VARIABLES phase,      \* client/commit-worker pc: "idle" | "append" | "sync" | "ack" | "crashed" | "recovered"
          cur,        \* records of the batch in flight still to be appended
          accepted,   \* sequence of batch sizes accepted so far
          acked,      \* number of batches acknowledged
          seg,        \* active WAL segment id (= active memtable id)
          walFile,    \* [segment id -> sequence of records that reached the file]
          walBuf,     \* records sitting in the user-space buffer of the active segment
          mem,        \* records in the active memtable
          imm,        \* sealed memtables: sequence of [seg, recs]
          tables,     \* set of installed SSTs: [fid, recs]   (manifest + files)
          logPtr,     \* manifest log pointer (segment id)
          recovered,  \* set of records visible after recovery
          splitB,     \* ghost: batches cut by a durability boundary (rotation or buffer spill inside the batch)
          hist
vars == <<phase, cur, accepted, acked, seg, walFile, walBuf, mem, imm, tables, logPtr, recovered, splitB, hist>>
view == <<phase, cur, accepted, acked, seg, walFile, walBuf, mem, imm, tables, logPtr, recovered, splitB>>

Log(r) == hist' = IF Len(hist) < MaxHist THEN Append(hist, r) ELSE hist
RecsOf(b, n) == [i \in 1..n |-> <<b, i>>]

Init == /\ phase = "idle" /\ cur = <<>> /\ accepted = <<>> /\ acked = 0 /\ seg = 1
        /\ walFile = [s \in {1} |-> <<>>] /\ walBuf = <<>> /\ mem = <<>> /\ imm = <<>>
        /\ tables = {} /\ logPtr = 0 /\ recovered = {} /\ splitB = {} /\ hist = <<>>

\* the client hands a batch to the commit pipeline
Accept(n) == /\ phase = "idle" /\ Len(accepted) < MaxBatches
             /\ accepted' = Append(accepted, n)
             /\ cur' = RecsOf(Len(accepted) + 1, n)
             /\ phase' = "append"
             /\ Log([op |-> "Write", n |-> n])
             /\ UNCHANGED <<acked, seg, walFile, walBuf, mem, imm, tables, logPtr, recovered, splitB>>

\* rotateLocked + SwitchSegment: the old segment's buffer is flushed and fsynced
DoRotate == /\ walFile' = [s \in (DOMAIN walFile) \cup {seg + 1} |->
                             IF s = seg THEN walFile[seg] \o walBuf
                             ELSE IF s = seg + 1 THEN <<>> ELSE walFile[s]]
            /\ walBuf' = <<>>
            /\ imm' = Append(imm, [seg |-> seg, recs |-> mem])
            /\ mem' = <<>> /\ seg' = seg + 1

\* SetBatch: as many of the remaining records as fit go to the active memtable (WAL buffer +
\* index); when nothing fits the memtable is rotated first. The batch may thus be split.
AppendPiece ==
    /\ phase = "append" /\ cur # <<>>
    /\ IF Len(mem) >= Cap
       THEN /\ DoRotate /\ UNCHANGED <<cur, phase>>
            /\ splitB' = IF cur[1][2] > 1 THEN splitB \cup {cur[1][1]} ELSE splitB
       ELSE LET k == Min({Len(cur), Cap - Len(mem)})
            IN /\ walBuf' = walBuf \o SubSeq(cur, 1, k)
               /\ mem' = mem \o SubSeq(cur, 1, k)
               /\ cur' = SubSeq(cur, k + 1, Len(cur))
               /\ phase' = IF k = Len(cur) THEN (IF SyncWrites THEN "sync" ELSE "ack") ELSE "append"
               /\ UNCHANGED <<seg, walFile, imm, splitB>>
    /\ UNCHANGED <<accepted, acked, tables, logPtr, recovered, hist>>

\* wal.Sync: flush the buffer and fsync the ACTIVE segment
SyncWal == /\ phase = "sync"
           /\ walFile' = [walFile EXCEPT ![seg] = @ \o walBuf] /\ walBuf' = <<>>
           /\ phase' = "ack"
           /\ UNCHANGED <<cur, accepted, acked, seg, mem, imm, tables, logPtr, recovered, splitB, hist>>

Ack == /\ phase = "ack" /\ acked' = acked + 1 /\ phase' = "idle"
       /\ UNCHANGED <<cur, accepted, seg, walFile, walBuf, mem, imm, tables, logPtr, recovered, splitB, hist>>

\* bufio overflow: a prefix of the buffer reaches the file without any sync call
SpillBuf == /\ Spill /\ walBuf # <<>> /\ phase \in {"idle", "append", "sync", "ack"}
            /\ \E k \in 1..Len(walBuf) :
                 /\ walFile' = [walFile EXCEPT ![seg] = @ \o SubSeq(walBuf, 1, k)]
                 /\ walBuf' = SubSeq(walBuf, k + 1, Len(walBuf))
                 /\ LET b == walBuf[k][1]
                        more == (k < Len(walBuf) /\ walBuf[k + 1][1] = b) \/ (cur # <<>> /\ cur[1][1] = b)
                    IN splitB' = IF more THEN splitB \cup {b} ELSE splitB
            /\ UNCHANGED <<phase, cur, accepted, acked, seg, mem, imm, tables, logPtr, recovered, hist>>

\* explicit rotation by the driver (only between operations)
Rotate == /\ phase = "idle" /\ mem # <<>> /\ DoRotate
          /\ Log([op |-> "Rotate"])
          /\ UNCHANGED <<phase, cur, accepted, acked, tables, logPtr, recovered, splitB>>

\* levelManager.flush of the oldest sealed memtable (three file-system visible steps collapsed
\* in the order the code performs them: SST + manifest edit first, WAL removal afterwards)
FlushInstall == /\ imm # <<>> /\ phase # "crashed" /\ phase # "recovered"
                /\ tables' = tables \cup {[fid |-> Head(imm).seg, recs |-> Head(imm).recs]}
                /\ logPtr' = Head(imm).seg
                /\ imm' = Tail(imm)
                /\ Log([op |-> "FlushWait"])
                /\ UNCHANGED <<phase, cur, accepted, acked, seg, walFile, walBuf, mem, recovered, splitB>>
RemoveWal == /\ phase # "crashed" /\ phase # "recovered"
             /\ \E s \in DOMAIN walFile : s <= logPtr /\ s # seg
                  /\ walFile' = [t \in (DOMAIN walFile) \ {s} |-> walFile[t]]
             /\ UNCHANGED <<phase, cur, accepted, acked, seg, walBuf, mem, imm, tables, logPtr, recovered, splitB, hist>>

Crash == /\ MaxHist = 0      \* generation mode (MaxHist > 0) produces workloads; crash points are enumerated on the code
         /\ phase \notin {"crashed", "recovered"}
         /\ phase' = "crashed" /\ walBuf' = <<>> /\ mem' = <<>> /\ imm' = <<>> /\ cur' = <<>>
         /\ UNCHANGED <<accepted, acked, seg, walFile, tables, logPtr, recovered, splitB, hist>>

\* LSM.recovery: segments <= log pointer are dropped, the rest replayed
Recover == /\ phase = "crashed" /\ phase' = "recovered"
           /\ recovered' = UNION {Range(t.recs) : t \in tables}
                           \cup UNION {Range(walFile[s]) : s \in {x \in DOMAIN walFile : x > logPtr}}
           /\ UNCHANGED <<cur, accepted, acked, seg, walFile, walBuf, mem, imm, tables, logPtr, splitB, hist>>

\* compaction, value-log GC and manifest rewrite reorganise files without changing the record set;
\* their crash points are enumerated on the real code (every file operation), here they are no-ops
Maint(kind) == /\ phase = "idle" /\ MaxHist > 0 /\ Log([op |-> kind])
               /\ UNCHANGED <<phase, cur, accepted, acked, seg, walFile, walBuf, mem, imm, tables, logPtr, recovered, splitB>>

Next == \/ \E n \in BatchSizes : Accept(n)
        \/ \E kind \in {"CompactL0", "IngestDrain", "GC"} : Maint(kind)
        \/ AppendPiece \/ SyncWal \/ Ack \/ SpillBuf \/ Rotate \/ FlushInstall \/ RemoveWal \/ Crash \/ Recover
Spec == Init /\ [][Next]_vars

\* ------------------------------------------------------------------ properties
AllRecs(p) == UNION {Range(RecsOf(b, accepted[b])) : b \in 1..p}
\* record-level prefix: what the WAL design does guarantee
RecordPrefix == phase = "recovered" =>
    \A r \in recovered : \A b \in 1..(r[1] - 1) : Range(RecsOf(b, accepted[b])) \subseteq recovered
\* C10: a prefix of whole batches
BatchPrefix == phase = "recovered" => \E p \in 0..Len(accepted) : recovered = AllRecs(p)
\* C09: with SyncWrites every acknowledged batch is inside the prefix
AckedDurable == (phase = "recovered" /\ SyncWrites) => AllRecs(acked) \subseteq recovered
\* witness of the recorded deviation (finding C10-batch-split): some batch's records were appended
\* to two different WAL segments because the memtable filled up in the middle of the batch
Partial == {b \in 1..Len(accepted) : LET rs == Range(RecsOf(b, accepted[b])) IN
                                         rs \cap recovered # {} /\ ~(rs \subseteq recovered)}
\* gating invariant: the only partially recovered batches are those cut by a durability boundary
\* (recorded deviation C10-batch-split), and everything else is a prefix
BatchPrefixModuloKnown == phase = "recovered" => (Partial \subseteq splitB /\ (Partial = {} => BatchPrefix))
NoLossOfFlushed == \A t \in tables : \A r \in Range(t.recs) : r[1] \in 1..Len(accepted)

EmitHist == (Len(hist) = MaxHist) => PrintT(<<"SCHED", ToJson(hist)>>)
=============================================================================
