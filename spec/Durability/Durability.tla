----------------------------- MODULE Durability -----------------------------
(* Implementation-shaped specification of what NoKV's write path puts on disk and when,      *)
(* and of what recovery reads back after a PROCESS crash (user-space buffers and memory are   *)
(* lost, everything handed to the kernel survives).                                           *)
(*                                                                                            *)
(*   db_write.go commitWorker:  vlog.write -> applyRequests (writeToLSM, updateHead)           *)
(*                              -> [SyncWrites: wal.Sync] -> ack                               *)
(*   vlog.write:                values go to the bucket's active value-log file (mmap'ed: the  *)
(*                              bytes are durable at append); a full file is sealed and the    *)
(*                              next one created (vlog/io.go reserve)                          *)
(*   db.updateHead:             the manifest learns about a value-log file only when the head  *)
(*                              moves to another file (LogValueLogHead, lazily)                *)
(*   lsm.SetBatch:              per memtable: wal.Append (into a bufio buffer) + index insert, *)
(*                              the batch is SPLIT when the memtable fills up                  *)
(*   lsm.rotateLocked:          wal.SwitchSegment = flush buffer + fsync old segment           *)
(*   levelManager.flush:        build SST, manifest LogEdits{AddFile, LogPointer}, remove WAL  *)
(*   valueLog.rewrite (GC):     live values of a sealed file are re-inserted through the write *)
(*                              path; a file without live values is dropped: manifest          *)
(*                              tombstone, then unlink (removeValueLogFile)                    *)
(*   valueLog.reconcileManifest tombstoned files and files above the newest file the manifest  *)
(*                              knows are removed at open                                      *)
(*   LSM.recovery:              remove segments <= log pointer, replay the others              *)
(*                                                                                            *)
(* Records are <<batch index, position in batch>>; a batch is a transaction (or one plain      *)
(* write). Ghost: accepted = batches handed to the engine, acked = number answered.            *)
(* Properties: C10 recovered = records of a prefix of the accepted batches, no batch partially *)
(* present, every visible value pointer resolves; C09 (SyncWrites) the prefix covers every      *)
(* acknowledged batch; C11 value-log GC, further crashes and reopening never change what a key  *)
(* reads as.                                                                                    *)
EXTENDS Integers, Sequences, FiniteSets, SequencesExt, FiniteSetsExt, TLC, Json

CONSTANTS MaxBatches,     \* batches issued by the single client
          BatchSizes,     \* possible batch sizes, e.g. {1, 2}
          Cap,            \* records a memtable takes before it is rotated
          SyncWrites,     \* BOOLEAN
          Spill,          \* BOOLEAN: the WAL's bufio buffer may overflow into the file at any time
          MaxHist,
          Keys,           \* keys (naturals); key k lives in value-log bucket k % NBuckets
          NBuckets,
          VCap,           \* records per value-log file; 0 = values stay inline (no value log)
          MaxGC,          \* value-log GC passes
          MaxCrash,       \* crash / reopen cycles
          FlushWorkers,   \* 1 as in the code; 2 = a younger sealed memtable may be installed first
          GcSync,         \* TRUE: removeValueLogFile syncs the WAL first (fix 133a36d); FALSE: as it was
          GcExact         \* TRUE: GC re-inserts only the record the LSM references (fix 7baa93c); FALSE: every record the LSM is not past

VARIABLES phase,      \* "idle" | "vlog" | "append" | "head" | "sync" | "ack" | "crashed" | "recovered" | "maint"
          cur,        \* records of the batch in flight still to be appended
          accepted,   \* sequence of batches (each a sequence of keys) accepted so far
          acked,      \* number of batches acknowledged
          seg,        \* active WAL segment id (= active memtable id)
          walFile,    \* [segment id -> sequence of records that reached the file]
          walBuf,     \* records sitting in the user-space buffer of the active segment
          mem,        \* records in the active memtable
          imm,        \* sealed memtables: sequence of [seg, recs]
          tables,     \* set of installed SSTs: [fid, recs]   (manifest + files)
          logPtr,     \* manifest log pointer (segment id)
          recovered,  \* set of record ids visible after recovery
          splitB,     \* ghost: batches cut by a durability boundary (rotation or buffer spill inside the batch)
          held,       \* generation only: the flush of the oldest sealed memtable is stalled
          vfile,      \* [<<bucket, fid>> -> sequence of record ids]: value-log files on disk
          vact,       \* [bucket -> active fid]
          mvalid,     \* manifest: value-log files recorded as valid (LogValueLogHead)
          mdel,       \* manifest: tombstones (LogValueLogDelete)
          logged,     \* [bucket -> fid this process logged last as head, -1 = none] (db.lastLoggedHeads)
          gcq,        \* GC pass in progress: targets <<bucket, fid>> still to process
          gcst,       \* step inside the current target: "scan" | "unlink"
          gcret,      \* phase to return to when the pass is over
          ngc, ncrash,
          view0,      \* ghost: what every key read as when the GC pass started / after the first recovery
          hist
vars == <<phase, cur, accepted, acked, seg, walFile, walBuf, mem, imm, tables, logPtr, recovered, splitB, held,
          vfile, vact, mvalid, mdel, logged, gcq, gcst, gcret, ngc, ncrash, view0, hist>>
view == <<phase, cur, accepted, acked, seg, walFile, walBuf, mem, imm, tables, logPtr, recovered, splitB, held,
          vfile, vact, mvalid, mdel, logged, gcq, gcst, gcret, ngc, ncrash, view0>>
lsmVars  == <<seg, walFile, walBuf, mem, imm, tables, logPtr>>
vlogVars == <<vfile, vact, mvalid, mdel, logged>>
gcVars   == <<gcq, gcst, gcret, ngc, view0>>

Log(r) == hist' = IF Len(hist) < MaxHist THEN Append(hist, r) ELSE hist
Buckets == 0..(NBuckets - 1)
Bucket(k) == k % NBuckets
\* a record: identity <<b, j>>, key, and where its value lives (f = -1: inline)
Rec(b, j, k) == [b |-> b, j |-> j, k |-> k, f |-> -1, o |-> 0]
Id(r) == <<r.b, r.j>>
RecsOf(b, ks) == [i \in 1..Len(ks) |-> Rec(b, i, ks[i])]
IdsOf(b) == {<<b, i>> : i \in 1..Len(accepted[b])}
KeyOf(id) == accepted[id[1]][id[2]]

Init == /\ phase = "idle" /\ cur = <<>> /\ accepted = <<>> /\ acked = 0 /\ seg = 1
        /\ walFile = [s \in {1} |-> <<>>] /\ walBuf = <<>> /\ mem = <<>> /\ imm = <<>>
        /\ tables = {} /\ logPtr = 0 /\ recovered = {} /\ splitB = {} /\ held = FALSE
        /\ vfile = [t \in {<<bk, 0>> : bk \in Buckets} |-> <<>>] /\ vact = [bk \in Buckets |-> 0]
        /\ mvalid = {} /\ mdel = {} /\ logged = [bk \in Buckets |-> -1]
        /\ gcq = <<>> /\ gcst = "scan" /\ gcret = "idle" /\ ngc = 0 /\ ncrash = 0
        /\ view0 = [k \in Keys |-> <<>>] /\ hist = <<>>

\* ------------------------------------------------------------------ reads
\* plain API: every write of a key carries the same version, so the newest source holding the key wins
\* (active memtable, sealed memtables newest first, tables by descending id); inside a source the last record
Sources == <<mem>> \o [i \in 1..Len(imm) |-> imm[Len(imm) + 1 - i].recs]
           \o [i \in 1..Cardinality(tables) |-> SetToSortSeq(tables, LAMBDA a, b : a.fid > b.fid)[i].recs]
LastOf(rs, k) == LET is == {i \in 1..Len(rs) : rs[i].k = k} IN IF is = {} THEN <<>> ELSE <<rs[Max(is)]>>
Look(srcs, k) == LET hit == {i \in 1..Len(srcs) : LastOf(srcs[i], k) # <<>>}
                 IN IF hit = {} THEN <<>> ELSE LastOf(srcs[Min(hit)], k)
Resolves(r) == r.f = -1 \/ (<<Bucket(r.k), r.f>> \in DOMAIN vfile /\ r.o <= Len(vfile[<<Bucket(r.k), r.f>>])
                            /\ vfile[<<Bucket(r.k), r.f>>][r.o] = Id(r))
\* what key k reads as: <<>> absent, the identity of the visible write, or "ERR" (pointer into nothing)
Read(srcs, k) == LET h == Look(srcs, k) IN IF h = <<>> THEN <<>> ELSE IF Resolves(h[1]) THEN Id(h[1]) ELSE <<"ERR">>
View == [k \in Keys |-> Read(Sources, k)]

\* ------------------------------------------------------------------ commit pipeline
\* without a value log the keys play no role: one canonical choice keeps the state space small
KeySeqs(n) == IF VCap = 0 THEN {[i \in 1..n |-> SetToSortSeq(Keys, LAMBDA a, b : a < b)[i]]}
              ELSE {s \in [1..n -> Keys] : \A i, j \in 1..n : i # j => s[i] # s[j]}
Accept(ks) == /\ phase = "idle" /\ gcq = <<>> /\ Len(accepted) < MaxBatches
              /\ accepted' = Append(accepted, ks)
              /\ cur' = RecsOf(Len(accepted) + 1, ks)
              /\ phase' = IF VCap > 0 THEN "vlog" ELSE "append"
              /\ Log([op |-> "Write", n |-> Len(ks), ks |-> ks])
              /\ UNCHANGED <<acked, recovered, splitB, held, ncrash>> /\ UNCHANGED lsmVars /\ UNCHANGED vlogVars /\ UNCHANGED gcVars

\* vlog.write for a request: per bucket the values are reserved together; when they do not fit the active
\* file is sealed and the next one created (vlog/io.go reserve; more values than a file holds go one by one)
RECURSIVE PlaceOne(_, _, _, _)
PlaceOne(rs, is, vf, va) ==     \* rs: records; is: positions (ascending) still to place; one at a time
    IF is = <<>> THEN [rs |-> rs, vf |-> vf, va |-> va]
    ELSE LET i == Head(is) bk == Bucket(rs[i].k)
             full == Len(vf[<<bk, va[bk]>>]) >= VCap
             fid == IF full THEN va[bk] + 1 ELSE va[bk]
             vf1 == IF full THEN (<<bk, fid>> :> <<>>) @@ vf ELSE vf
             vf2 == [vf1 EXCEPT ![<<bk, fid>>] = Append(@, Id(rs[i]))]
         IN PlaceOne([rs EXCEPT ![i].f = fid, ![i].o = Len(vf2[<<bk, fid>>])], Tail(is), vf2, [va EXCEPT ![bk] = fid])
RECURSIVE PlaceAll(_, _, _, _)
PlaceAll(rs, bks, vf, va) ==    \* bucket after bucket
    IF bks = <<>> THEN [rs |-> rs, vf |-> vf, va |-> va]
    ELSE LET bk == Head(bks)
             is == SetToSortSeq({i \in 1..Len(rs) : Bucket(rs[i].k) = bk}, LAMBDA a, b : a < b)
             m  == Len(is)
             \* the group does not fit but would fit an empty file: seal first
             seal == m > 0 /\ m <= VCap /\ Len(vf[<<bk, va[bk]>>]) + m > VCap
             vf1 == IF seal THEN (<<bk, va[bk] + 1>> :> <<>>) @@ vf ELSE vf
             va1 == IF seal THEN [va EXCEPT ![bk] = @ + 1] ELSE va
             res == PlaceOne(rs, is, vf1, va1)
         IN PlaceAll(res.rs, Tail(bks), res.vf, res.va)
BucketSeq == SetToSortSeq(Buckets, LAMBDA a, b : a < b)

VlogWrite == /\ phase = "vlog"
             /\ LET res == PlaceAll(cur, BucketSeq, vfile, vact)
                IN cur' = res.rs /\ vfile' = res.vf /\ vact' = res.va
             /\ phase' = "append"
             /\ UNCHANGED <<accepted, acked, recovered, splitB, held, mvalid, mdel, logged, ncrash, hist>>
             /\ UNCHANGED lsmVars /\ UNCHANGED gcVars

\* rotateLocked + SwitchSegment: the old segment's buffer is flushed and fsynced
DoRotate == /\ walFile' = [s \in (DOMAIN walFile) \cup {seg + 1} |->
                             IF s = seg THEN walFile[seg] \o walBuf
                             ELSE IF s = seg + 1 THEN <<>> ELSE walFile[s]]
            /\ walBuf' = <<>>
            /\ imm' = Append(imm, [seg |-> seg, recs |-> mem])
            /\ mem' = <<>> /\ seg' = seg + 1

\* SetBatch: as many of the remaining records as fit go to the active memtable (WAL buffer +
\* index); when nothing fits the memtable is rotated first. The batch may thus be split.
AppendPiece ==
    /\ phase = "append" /\ cur # <<>>
    /\ IF Len(mem) >= Cap
       THEN /\ DoRotate /\ UNCHANGED <<cur, phase>>
            /\ splitB' = IF cur[1].j > 1 THEN splitB \cup {cur[1].b} ELSE splitB
       ELSE LET k == Min({Len(cur), Cap - Len(mem)})
            IN /\ walBuf' = walBuf \o SubSeq(cur, 1, k)
               /\ mem' = mem \o SubSeq(cur, 1, k)
               /\ cur' = SubSeq(cur, k + 1, Len(cur))
               /\ phase' = IF k = Len(cur) THEN "head" ELSE "append"
               /\ UNCHANGED <<seg, walFile, imm, splitB>>
    /\ UNCHANGED <<accepted, acked, tables, logPtr, recovered, held, ncrash, hist>> /\ UNCHANGED vlogVars /\ UNCHANGED gcVars

\* db.updateHead after writeToLSM: the head is logged only when it moved to another file
HeadsMoved(va, lg) == {bk \in Buckets : VCap > 0 /\ lg[bk] # va[bk] /\ \E t \in DOMAIN vfile : t[1] = bk /\ vfile[t] # <<>>}
UpdateHead == /\ phase = "head"
              /\ mvalid' = mvalid \cup {<<bk, vact[bk]>> : bk \in HeadsMoved(vact, logged)}
              /\ logged' = [bk \in Buckets |-> IF bk \in HeadsMoved(vact, logged) THEN vact[bk] ELSE logged[bk]]
              /\ phase' = IF SyncWrites THEN "sync" ELSE "ack"
              /\ UNCHANGED <<cur, accepted, acked, recovered, splitB, held, vfile, vact, mdel, ncrash, hist>>
              /\ UNCHANGED lsmVars /\ UNCHANGED gcVars

\* wal.Sync: flush the buffer and fsync the ACTIVE segment
SyncWal == /\ phase = "sync"
           /\ walFile' = [walFile EXCEPT ![seg] = @ \o walBuf] /\ walBuf' = <<>>
           /\ phase' = "ack"
           /\ UNCHANGED <<cur, accepted, acked, seg, mem, imm, tables, logPtr, recovered, splitB, held, ncrash, hist>>
           /\ UNCHANGED vlogVars /\ UNCHANGED gcVars

Ack == /\ phase = "ack" /\ acked' = acked + 1 /\ phase' = "idle"
       /\ UNCHANGED <<cur, accepted, recovered, splitB, held, ncrash, hist>> /\ UNCHANGED lsmVars /\ UNCHANGED vlogVars /\ UNCHANGED gcVars

\* bufio overflow: a prefix of the buffer reaches the file without any sync call
SpillBuf == /\ Spill /\ walBuf # <<>> /\ phase \in {"idle", "vlog", "append", "head", "sync", "ack", "maint"}
            /\ \E k \in 1..Len(walBuf) :
                 /\ walFile' = [walFile EXCEPT ![seg] = @ \o SubSeq(walBuf, 1, k)]
                 /\ walBuf' = SubSeq(walBuf, k + 1, Len(walBuf))
                 /\ LET b == walBuf[k].b
                        more == (k < Len(walBuf) /\ walBuf[k + 1].b = b) \/ (cur # <<>> /\ cur[1].b = b)
                    IN splitB' = IF more THEN splitB \cup {b} ELSE splitB
            /\ UNCHANGED <<phase, cur, accepted, acked, seg, mem, imm, tables, logPtr, recovered, held, ncrash, hist>>
            /\ UNCHANGED vlogVars /\ UNCHANGED gcVars

Running == phase \notin {"crashed", "recovered"}
\* explicit rotation by the driver (only between operations)
Rotate == /\ phase = "idle" /\ gcq = <<>> /\ mem # <<>> /\ DoRotate
          /\ Log([op |-> "Rotate"])
          /\ UNCHANGED <<phase, cur, accepted, acked, tables, logPtr, recovered, splitB, held, ncrash>> /\ UNCHANGED vlogVars /\ UNCHANGED gcVars

\* generation only: the driver stalls the flush of the next memtable to be sealed / lets it go again
HoldFlush == /\ MaxHist > 0 /\ phase = "idle" /\ gcq = <<>> /\ ~held /\ imm = <<>> /\ held' = TRUE
             /\ Log([op |-> "HoldFlush"])
             /\ UNCHANGED <<phase, cur, accepted, acked, recovered, splitB, ncrash>> /\ UNCHANGED lsmVars /\ UNCHANGED vlogVars /\ UNCHANGED gcVars
ReleaseFlush == /\ MaxHist > 0 /\ phase = "idle" /\ gcq = <<>> /\ held /\ held' = FALSE
                /\ Log([op |-> "ReleaseFlush"])
                /\ UNCHANGED <<phase, cur, accepted, acked, recovered, splitB, ncrash>> /\ UNCHANGED lsmVars /\ UNCHANGED vlogVars /\ UNCHANGED gcVars

\* levelManager.flush of a sealed memtable (three file-system visible steps collapsed in the order the
\* code performs them: SST + manifest edit first, WAL removal afterwards). The single flush worker takes
\* the memtables in sealing order; recovery relies on that (it drops every segment <= the log pointer).
FlushInstall == /\ imm # <<>> /\ Running /\ ~held
                /\ \E i \in 1..Min({FlushWorkers, Len(imm)}) :
                     /\ tables' = tables \cup {[fid |-> imm[i].seg, recs |-> imm[i].recs]}
                     /\ logPtr' = imm[i].seg
                     /\ imm' = SubSeq(imm, 1, i - 1) \o SubSeq(imm, i + 1, Len(imm))
                /\ Log([op |-> "FlushWait"])
                /\ UNCHANGED <<phase, cur, accepted, acked, seg, walFile, walBuf, mem, recovered, splitB, held, ncrash>>
                /\ UNCHANGED vlogVars /\ UNCHANGED gcVars
RemoveWal == /\ Running
             /\ \E s \in DOMAIN walFile : s <= logPtr /\ s # seg
                  /\ walFile' = [t \in (DOMAIN walFile) \ {s} |-> walFile[t]]
             /\ UNCHANGED <<phase, cur, accepted, acked, seg, walBuf, mem, imm, tables, logPtr, recovered, splitB, held, ncrash, hist>>
             /\ UNCHANGED vlogVars /\ UNCHANGED gcVars

\* ------------------------------------------------------------------ value-log GC (one pass = every sealed file)
Sealed == {t \in DOMAIN vfile : t[2] < vact[t[1]]}
StartGC == /\ phase \in {"idle", "maint"} /\ gcq = <<>> /\ VCap > 0 /\ ngc < MaxGC /\ Sealed # {}
           /\ gcq' = SetToSortSeq(Sealed, LAMBDA a, b : a[1] < b[1] \/ (a[1] = b[1] /\ a[2] < b[2]))
           /\ gcst' = "scan" /\ gcret' = phase /\ ngc' = ngc + 1
           /\ view0' = IF phase = "idle" THEN View ELSE view0
           /\ Log([op |-> "GC"])
           /\ UNCHANGED <<phase, cur, accepted, acked, recovered, splitB, held, ncrash>> /\ UNCHANGED lsmVars /\ UNCHANGED vlogVars
\* rewrite.process: is the record at position o of file t live?
Live(t, o) == LET h == Look(Sources, KeyOf(vfile[t][o])) IN
              /\ h # <<>> /\ h[1].f # -1
              /\ ~(h[1].f > t[2] \/ (h[1].f = t[2] /\ h[1].o > o))                 \* the LSM is not past it
              /\ (GcExact => (h[1].f = t[2] /\ h[1].o = o))                        \* and (fix 7baa93c) not before it
GCScan == /\ gcq # <<>> /\ gcst = "scan" /\ Running
          /\ LET t == Head(gcq)
                 os == SetToSortSeq({o \in 1..Len(vfile[t]) : Live(t, o)}, LAMBDA a, b : a < b)
                 \* the re-inserted records keep key and identity; their values go to the active file
                 rs == [i \in 1..Len(os) |-> [Rec(vfile[t][os[i]][1], vfile[t][os[i]][2], KeyOf(vfile[t][os[i]])) EXCEPT !.f = 0]]
                 res == PlaceAll(rs, BucketSeq, vfile, vact)
             IN IF os = <<>>
                THEN \* nothing live: the file is dropped; first the WAL is made durable (GcSync), then the tombstone
                     /\ gcst' = "unlink"
                     /\ mdel' = mdel \cup {t} /\ mvalid' = mvalid \ {t}
                     /\ IF GcSync THEN walFile' = [walFile EXCEPT ![seg] = @ \o walBuf] /\ walBuf' = <<>>
                                  ELSE UNCHANGED <<walFile, walBuf>>
                     /\ UNCHANGED <<mem, vfile, vact, logged, gcq>>
                ELSE \* batchSet: value log, memtable + WAL buffer, head, sync when SyncWrites; the pass then goes on
                     \* to the next file WITHOUT dropping this one (the code's check after the rewrite fails)
                     /\ vfile' = res.vf /\ vact' = res.va
                     /\ mem' = mem \o res.rs
                     /\ IF SyncWrites THEN walFile' = [walFile EXCEPT ![seg] = @ \o walBuf \o res.rs] /\ walBuf' = <<>>
                                      ELSE walBuf' = walBuf \o res.rs /\ UNCHANGED walFile
                     /\ mvalid' = mvalid \cup {<<bk, res.va[bk]>> : bk \in HeadsMoved(res.va, logged)}
                     /\ logged' = [bk \in Buckets |-> IF bk \in HeadsMoved(res.va, logged) THEN res.va[bk] ELSE logged[bk]]
                     /\ gcq' = Tail(gcq) /\ UNCHANGED <<gcst, mdel>>
          /\ UNCHANGED <<phase, cur, accepted, acked, seg, imm, tables, logPtr, recovered, splitB, held, gcret, ngc, ncrash, view0, hist>>
GCUnlink == /\ gcq # <<>> /\ gcst = "unlink" /\ Running
            /\ vfile' = [t \in (DOMAIN vfile) \ {Head(gcq)} |-> vfile[t]]
            /\ gcq' = Tail(gcq) /\ gcst' = "scan"
            /\ UNCHANGED <<phase, cur, accepted, acked, recovered, splitB, held, vact, mvalid, mdel, logged, gcret, ngc, ncrash, view0, hist>>
            /\ UNCHANGED lsmVars

\* new client writes to OTHER keys fill and seal the active file of a bucket (maintenance phase of the driver)
SealBucket(bk) == /\ phase = "maint" /\ gcq = <<>> /\ VCap > 0 /\ vfile[<<bk, vact[bk]>>] # <<>>
                  /\ vfile' = (<<bk, vact[bk] + 1>> :> <<>>) @@ vfile
                  /\ vact' = [vact EXCEPT ![bk] = @ + 1]
                  /\ mvalid' = mvalid \cup {<<bk, vact[bk] + 1>>} /\ logged' = [logged EXCEPT ![bk] = vact[bk] + 1]
                  /\ UNCHANGED <<phase, cur, accepted, acked, recovered, splitB, held, mdel, ncrash, hist>> /\ UNCHANGED lsmVars /\ UNCHANGED gcVars

\* ------------------------------------------------------------------ crash and recovery
Crash == /\ MaxHist = 0      \* generation mode (MaxHist > 0) produces workloads; crash points are enumerated on the code
         /\ Running /\ ncrash < MaxCrash
         /\ phase' = "crashed" /\ walBuf' = <<>> /\ mem' = <<>> /\ imm' = <<>> /\ cur' = <<>>
         /\ gcq' = <<>> /\ gcst' = "scan" /\ ncrash' = ncrash + 1
         /\ UNCHANGED <<accepted, acked, seg, walFile, tables, logPtr, recovered, splitB, held, gcret, ngc, view0, hist>>
         /\ UNCHANGED vlogVars

\* valueLog.reconcileManifest: tombstoned files go; so do files above the newest one the manifest knows
Reconciled == LET top(bk) == Max({t[2] : t \in {x \in mvalid : x[1] = bk}})
                  gone == {t \in DOMAIN vfile : t \in mdel \/ ({x \in mvalid : x[1] = t[1]} # {} /\ t[2] > top(t[1]))}
              IN [t \in (DOMAIN vfile) \ gone |-> vfile[t]]
\* LSM.recovery: segments <= log pointer are dropped, the rest replayed into one sealed memtable each
Recover == /\ phase = "crashed" /\ phase' = "recovered"
           /\ LET live == {x \in DOMAIN walFile : x > logPtr}
                  ss == SetToSortSeq(live, LAMBDA a, b : a < b)
                  vf == Reconciled
              IN /\ recovered' = UNION {{Id(r) : r \in Range(t.recs)} : t \in tables}
                                 \cup UNION {{Id(r) : r \in Range(walFile[s])} : s \in live}
                 /\ imm' = [i \in 1..Len(ss) |-> [seg |-> ss[i], recs |-> walFile[ss[i]]]]
                 /\ walFile' = [s \in live \cup {seg + 1} |-> IF s = seg + 1 THEN <<>> ELSE walFile[s]]
                 /\ seg' = seg + 1
                 \* the highest file of a bucket becomes its active file again
                 /\ vfile' = [t \in (DOMAIN vf) \cup {<<bk, 0>> : bk \in {b \in Buckets : {x \in DOMAIN vf : x[1] = b} = {}}} |->
                                 IF t \in DOMAIN vf THEN vf[t] ELSE <<>>]
                 /\ vact' = [bk \in Buckets |-> LET fs == {x[2] : x \in {y \in DOMAIN vf : y[1] = bk}} IN IF fs = {} THEN 0 ELSE Max(fs)]
                 /\ logged' = [bk \in Buckets |-> LET fs == {x[2] : x \in {y \in mvalid : y[1] = bk}} IN IF fs = {} THEN -1 ELSE Max(fs)]
           /\ UNCHANGED <<cur, accepted, acked, walBuf, mem, tables, logPtr, splitB, held, mvalid, mdel, ncrash, hist>> /\ UNCHANGED gcVars
\* the recovered database is then only maintained (flush, GC, sealing by unrelated writes, further crashes)
Resume == /\ phase = "recovered" /\ phase' = "maint" /\ (VCap > 0 \/ MaxCrash > 1)
          /\ view0' = IF ncrash = 1 THEN View ELSE view0
          /\ UNCHANGED <<cur, accepted, acked, recovered, splitB, held, gcq, gcst, gcret, ngc, ncrash, hist>> /\ UNCHANGED lsmVars /\ UNCHANGED vlogVars

\* compaction and manifest rewrite reorganise files without changing the record set; their crash points are
\* enumerated on the real code (every file operation), here they are no-ops
Maint(kind) == /\ phase = "idle" /\ gcq = <<>> /\ MaxHist > 0 /\ Log([op |-> kind])
               /\ UNCHANGED <<phase, cur, accepted, acked, recovered, splitB, held, ncrash>> /\ UNCHANGED lsmVars /\ UNCHANGED vlogVars /\ UNCHANGED gcVars

Next == \/ \E n \in BatchSizes : \E ks \in KeySeqs(n) : Accept(ks)
        \/ \E kind \in {"CompactL0", "IngestDrain"} : Maint(kind)
        \/ VlogWrite \/ AppendPiece \/ UpdateHead \/ SyncWal \/ Ack \/ SpillBuf \/ Rotate \/ HoldFlush \/ ReleaseFlush
        \/ FlushInstall \/ RemoveWal \/ StartGC \/ GCScan \/ GCUnlink \/ \E bk \in Buckets : SealBucket(bk)
        \/ Crash \/ Recover \/ Resume
Spec == Init /\ [][Next]_vars

\* ------------------------------------------------------------------ properties
AllRecs(p) == UNION {IdsOf(b) : b \in 1..p}
First == phase = "recovered" /\ ncrash = 1
\* record-level prefix: what the WAL design does guarantee
RecordPrefix == First => \A r \in recovered : \A b \in 1..(r[1] - 1) : IdsOf(b) \subseteq recovered
\* C10: a prefix of whole batches
BatchPrefix == First => \E p \in 0..Len(accepted) : recovered = AllRecs(p)
\* C09: with SyncWrites every acknowledged batch is inside the prefix
AckedDurable == (First /\ SyncWrites) => AllRecs(acked) \subseteq recovered
\* witness of the recorded deviation (finding C10-batch-split): some batch's records were appended
\* to two different WAL segments because the memtable filled up in the middle of the batch
Partial == {b \in 1..Len(accepted) : IdsOf(b) \cap recovered # {} /\ ~(IdsOf(b) \subseteq recovered)}
\* gating invariant: the only partially recovered batches are those cut by a durability boundary
\* (recorded deviation C10-batch-split), and everything else is a prefix
BatchPrefixModuloKnown == First => (Partial \subseteq splitB /\ (Partial = {} => BatchPrefix))
NoLossOfFlushed == \A t \in tables : \A r \in Range(t.recs) : r.b \in 1..Len(accepted)
\* C10 "every key that reads as present has a readable value": whenever the database is open, no key reads
\* through a pointer into a missing file (before the first crash, after every recovery, during maintenance)
\* -- except for a batch cut by a durability boundary, whose durable part may point into a file the manifest
\* did not know yet (same recorded deviation)
Dangling == {k \in Keys : Read(Sources, k) = <<"ERR">>}
PointersResolve == (phase # "crashed") => \A k \in Dangling : Look(Sources, k)[1].b \in splitB
PointersResolveStrict == (phase # "crashed") => Dangling = {}
\* C11: a GC pass, maintenance of the recovered database, further crashes and reopening leave every key as it read
ContentsStable == ((gcq # <<>> /\ phase # "crashed") \/ phase = "maint" \/ (phase = "recovered" /\ ncrash > 1)) => View = view0

EmitHist == (Len(hist) = MaxHist) => PrintT(<<"SCHED", ToJson(hist)>>)
=============================================================================
