-------------------------- MODULE RecoveryPropTrace --------------------------
(* Property layer for C09 / C10 / C11 (DESIGN.md section 5, Appendix A).                       *)
(* One trace = one process crash of a single-client workload:                                  *)
(*   Cfg(prop, sync, keys)  Accept(i, writes)* Ack(i)*  [crash]  Recovered(open, dump)  Post(dump)*  *)
(* C10: the recovered contents equal the result of applying a PREFIX of the accepted batches   *)
(*      (a batch = one plain write or one transaction), nothing partial, nothing unwritten.    *)
(* C09: with SyncWrites the prefix covers every batch acknowledged before the crash.           *)
(* C11: whatever maintenance runs afterwards (flush, compaction, GC, close/reopen) leaves the  *)
(*      recovered contents unchanged.                                                          *)
EXTENDS Integers, Sequences, FiniteSets, TLC, Json, IOUtils

Trace == ndJsonDeserialize(IOEnv.TRACE)
NOTFOUND == "NOTFOUND"

VARIABLES l, cfg, batches, acked, recov
vars == <<l, cfg, batches, acked, recov>>

NoCfg == [prop |-> "C10", sync |-> FALSE, keys |-> <<>>]
Init == l = 1 /\ cfg = NoCfg /\ batches = <<>> /\ acked = {} /\ recov = <<>>

ev == Trace[l]
IsEvent(name) == l <= Len(Trace) /\ ev.e = name /\ l' = l + 1
Expect(got, want) == got = want \/ (got # want /\ PrintT(<<"MISMATCH", l, want>>))

Keys == {cfg.keys[i] : i \in 1..Len(cfg.keys)}

\* value of key k after applying batches 1..p in order (later writes win; "" = delete)
Val(k, p) ==
    LET hits == {<<b, j>> \in (1..p) \X (1..8) : j <= Len(batches[b]) /\ batches[b][j].k = k}
    IN IF hits = {} THEN NOTFOUND
       ELSE LET top == CHOOSE h \in hits : \A g \in hits : g[1] < h[1] \/ (g[1] = h[1] /\ g[2] <= h[2])
                v   == batches[top[1]][top[2]].v
            IN IF v = "" THEN NOTFOUND ELSE v
Matches(dump, p) == \A k \in Keys : dump[k] = Val(k, p)

Reset == IsEvent("Reset") /\ cfg' = NoCfg /\ batches' = <<>> /\ acked' = {} /\ recov' = <<>>
Cfg   == IsEvent("Cfg") /\ cfg' = [prop |-> ev.prop, sync |-> ev.sync, keys |-> ev.keys]
         /\ UNCHANGED <<batches, acked, recov>>
\* the engine accepted batch number Len(batches)+1 (single client: acceptance order = call order)
Accept == IsEvent("Accept") /\ batches' = Append(batches, ev.w) /\ UNCHANGED <<cfg, acked, recov>>
\* the call of batch number ev.b returned (calls may overlap when independent writes are issued
\* concurrently): success acknowledges that batch; an error means it must have had no effect, so its
\* writes are taken out of the accepted sequence (the slot stays, indices are stable)
Ack == /\ IsEvent("Ack")
       /\ IF ev.ok THEN acked' = acked \cup {ev.b} /\ UNCHANGED batches
                   ELSE batches' = [batches EXCEPT ![ev.b] = <<>>] /\ UNCHANGED acked
       /\ UNCHANGED <<cfg, recov>>
\* C09: batches that write key k; the newest acknowledged one bounds what may be lost
Writers(k) == {b \in 1..Len(batches) : \E j \in 1..Len(batches[b]) : batches[b][j].k = k}
ValIn(k, b) == LET j == CHOOSE i \in 1..Len(batches[b]) :
                           batches[b][i].k = k /\ \A m \in 1..Len(batches[b]) : batches[b][m].k = k => m <= i
               IN IF batches[b][j].v = "" THEN NOTFOUND ELSE batches[b][j].v
AckedOK(dump) ==
    \A k \in Keys :
        LET ws == Writers(k)
            la == {b \in ws : b \in acked}
            lo == IF la = {} THEN 0 ELSE CHOOSE b \in la : \A c \in la : c <= b
        IN \/ (lo = 0 /\ dump[k] = NOTFOUND)
           \/ \E b \in ws : b >= lo /\ b > 0 /\ dump[k] = ValIn(k, b)
Recovered ==
    /\ IsEvent("Recovered")
    /\ Expect(ev.open, TRUE)
    /\ ev.open =>
         IF cfg.prop = "C09"
         \* C09 speaks about acknowledged writes only: each key shows its value after the acknowledged
         \* batches, or after a later accepted (in-flight) one; atomicity of in-flight batches is C10's
         THEN Expect(AckedOK(ev.dump), TRUE)
         ELSE IF cfg.prop = "C10"
         THEN Expect(\E p \in 0..Len(batches) : Matches(ev.dump, p), TRUE)
         ELSE TRUE   \* C11 judges only what happens after recovery (Post)
    /\ recov' = IF ev.open THEN ev.dump ELSE <<>>
    /\ UNCHANGED <<cfg, batches, acked>>
\* C11: later maintenance and reopening do not change the recovered contents
Post == /\ IsEvent("Post")
        /\ Expect(\A k \in Keys : ev.dump[k] = recov[k], TRUE)
        /\ UNCHANGED <<cfg, batches, acked, recov>>

Next == Reset \/ Cfg \/ Accept \/ Ack \/ Recovered \/ Post
Spec == Init /\ [][Next]_vars

TraceAccepted ==
    LET d == TLCGet("stats").diameter
    IN PrintT(<<"TRACE_HW", d - 1, Len(Trace)>>) /\ d - 1 = Len(Trace)
=============================================================================
