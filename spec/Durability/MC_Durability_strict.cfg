SPECIFICATION Spec
CONSTANTS
 MaxBatches = 3
 BatchSizes = {1,2}
 Cap = 2
 SyncWrites = TRUE
 Spill = FALSE
 MaxHist = 0
VIEW view
INVARIANT RecordPrefix
INVARIANT AckedDurable
INVARIANT BatchPrefix
INVARIANT NoLossOfFlushed
CHECK_DEADLOCK FALSE
