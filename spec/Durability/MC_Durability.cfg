SPECIFICATION Spec
CONSTANTS
 MaxBatches = 3
 BatchSizes = {1,2}
 Cap = 2
 SyncWrites = TRUE
 Spill = FALSE
 MaxHist = 0
 Keys = {1,2}
 NBuckets = 1
 VCap = 0
 MaxGC = 0
 MaxCrash = 1
 FlushWorkers = 1
 GcSync = TRUE
 GcExact = TRUE
VIEW view
INVARIANT RecordPrefix
INVARIANT AckedDurable
INVARIANT BatchPrefixModuloKnown
INVARIANT NoLossOfFlushed
INVARIANT PointersResolve
INVARIANT ContentsStable
CHECK_DEADLOCK FALSE
